package main

import (
	"encoding/json"
	"fmt"
	"os"

	"github.com/dcaiafa/lox/verif/internal/gen"
	"github.com/dcaiafa/lox/verif/internal/pipe"
	"github.com/dcaiafa/lox/verif/internal/px"
)

func main() {
	b, _ := os.ReadFile(os.Args[1])
	var v struct {
		Case struct {
			Grammar *gen.Grammar `json:"grammar"`
			Input   []string     `json:"input"`
		} `json:"case"`
	}
	if err := json.Unmarshal(b, &v); err != nil {
		panic(err)
	}
	g := v.Case.Grammar
	fmt.Println(g.LoxText())
	ws := pipe.NewWorkspace("dbg")
	defer ws.Close()
	bb := px.Build(ws, g, px.NB)
	fmt.Println("status", bb.Status, bb.Problem, bb.Res.Diag)
	if bb.Status != px.Accepted {
		return
	}
	fmt.Println("actions", bb.Actions)
	fmt.Println("goto", bb.Goto)
	fmt.Println("rules", bb.Rules, "tc", bb.TermCounts)
	r := px.NewRunner(px.NB)
	bb.Install(r.C)
	r.NStates = len(bb.Actions)
	var w []int
	for _, n := range v.Case.Input {
		for i, t := range g.Toks {
			if t == n {
				w = append(w, i+2)
			}
		}
		if n == "ERROR" {
			w = append(w, 1)
		}
	}
	o := r.Run(w)
	fmt.Printf("ok=%v reads=%d steps=%d panic=%q hang=%q incon=%v events=%d\n", o.OK, o.Reads, o.Steps, o.Panic, o.Hang, o.Incon, len(o.Events))
}
