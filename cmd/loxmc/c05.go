package main

import (
	"encoding/json"
	"fmt"
	"strings"

	"github.com/dcaiafa/lox/verif/internal/ctypes"
	"github.com/dcaiafa/lox/verif/internal/gen"
	"github.com/dcaiafa/lox/verif/internal/mc"
	"github.com/dcaiafa/lox/verif/internal/pipe"
	"github.com/dcaiafa/lox/verif/internal/px"
)

// precref: precedence climbing over an operator table. Input: harness token
// indices. Output: fully parenthesised rendering, or "" if not an expression.
type precref struct {
	t       *gen.OpTable
	w       []int
	pos     int
	allLeft map[int]bool // levels to be read as @left (defect model); nil = as declared
}

func (p *precref) peek() int {
	if p.pos < len(p.w) {
		return p.w[p.pos]
	}
	return -1
}

func (p *precref) primary() (string, bool) {
	t := p.peek()
	switch {
	case t == 0 && p.t.Unary > 0:
		// prefix operator sharing the first binary operator's token: its operand
		// extends over binary operators that bind tighter (or equally, if @right)
		p.pos++
		lvl, assoc := p.t.UnaryLevel, p.t.UnaryAssoc
		if p.allLeft != nil && p.allLeft[lvl] {
			assoc = gen.Left
		}
		next := lvl + 1
		if assoc == gen.Right {
			next = lvl
		}
		e, ok := p.expr(next)
		if !ok {
			return "", false
		}
		return "(NEG " + e + ")", true
	case t == p.t.Atom:
		p.pos++
		return fmt.Sprintf("A%d", p.pos-1), true
	case t == p.t.LP && p.t.Extras >= 1:
		p.pos++
		e, ok := p.expr(1)
		if !ok || p.peek() != p.t.RP {
			return "", false
		}
		p.pos++
		return "(L " + e + " R)", true
	case t == p.t.Fn && p.t.Extras >= 2:
		p.pos++
		if p.peek() != p.t.LP {
			return "", false
		}
		p.pos++
		e, ok := p.expr(1)
		if !ok || p.peek() != p.t.RP {
			return "", false
		}
		p.pos++
		return "(F L " + e + " R)", true
	}
	return "", false
}

func (p *precref) expr(minLevel int) (string, bool) {
	lhs, ok := p.primary()
	if !ok {
		return "", false
	}
	for {
		op := p.peek()
		if op < 0 || op >= p.t.NumOps {
			return lhs, true
		}
		lvl, assoc := p.t.LevelOf(op)
		if p.allLeft != nil && p.allLeft[lvl] {
			assoc = gen.Left
		}
		if lvl < minLevel {
			return lhs, true
		}
		p.pos++
		next := lvl + 1
		if assoc == gen.Right {
			next = lvl
		}
		rhs, ok := p.expr(next)
		if !ok {
			return "", false
		}
		lhs = "(" + lhs + " O" + fmt.Sprint(op+1) + " " + rhs + ")"
	}
}

func precTree(t *gen.OpTable, w []int, allLeft map[int]bool) string {
	p := &precref{t: t, w: w, allLeft: allLeft}
	e, ok := p.expr(1)
	if !ok || p.pos != len(w) {
		return ""
	}
	return e
}

// implTree renders the tree built by the carrier's generic action in the same
// form.
func implTree(t *gen.OpTable, b *px.Built, x any) string {
	switch v := x.(type) {
	case ctypes.Token:
		return ""
	case *ctypes.Node:
		terms := b.ProdTerms[v.Prod]
		switch {
		case len(terms) == 2: // prefix operator
			return "(NEG " + implTree(t, b, v.Kids[1]) + ")"
		case len(terms) == 1: // atom
			tok := v.Kids[0].(ctypes.Token)
			return fmt.Sprintf("A%d", tok.Idx)
		case len(terms) == 3 && terms[0] == "e": // binary
			op := v.Kids[1].(ctypes.Token)
			return "(" + implTree(t, b, v.Kids[0]) + " O" + fmt.Sprint(op.Type-2-t.Grammar.PadToks+1) + " " + implTree(t, b, v.Kids[2]) + ")"
		case len(terms) == 3:
			return "(L " + implTree(t, b, v.Kids[1]) + " R)"
		case len(terms) == 4:
			return "(F L " + implTree(t, b, v.Kids[2]) + " R)"
		}
	}
	return "?"
}

type c05Case struct {
	// History: operator tables generated earlier in the same process, in order
	// (a defect may depend on what the process generated before).
	History []int        `json:"history,omitempty"`
	Table   int          `json:"table"`
	Grammar *gen.Grammar `json:"grammar"`
	Text    string       `json:"lox"`
	Input   []string     `json:"input"`
	W       []int        `json:"w"`
}

func c05Inputs(t *gen.OpTable, maxOps, maxParenOps int, f func(w []int)) {
	// chains A op A op A ...
	var rec func(w []int, n int)
	rec = func(w []int, n int) {
		f(w)
		if n == maxOps {
			return
		}
		for op := 0; op < t.NumOps; op++ {
			rec(append(append(w[:len(w):len(w)], op), t.Atom), n+1)
		}
	}
	rec([]int{t.Atom}, 0)
	if t.Unary > 0 {
		// every chain with <= maxOps-1 operators and a prefix operator before any subset of <= 2 operands
		var recU func(w []int, n int)
		recU = func(w []int, n int) {
			operands := 0
			for _, x := range w {
				if x == t.Atom {
					operands++
				}
			}
			for a := 0; a < operands; a++ {
				for b := a; b < operands; b++ {
					var v []int
					k := 0
					for _, x := range w {
						if x == t.Atom {
							if k == a || k == b {
								v = append(v, 0)
							}
							k++
						}
						v = append(v, x)
					}
					f(v)
				}
			}
			if n == maxOps-1 {
				return
			}
			for op := 0; op < t.NumOps; op++ {
				recU(append(append(w[:len(w):len(w)], op), t.Atom), n+1)
			}
		}
		recU([]int{t.Atom}, 0)
	}
	if t.Extras == 0 {
		return
	}
	// parenthesised variants: one parenthesised contiguous sub-expression (or
	// call) in every position of every chain with <= maxParenOps operators
	var rec2 func(w []int, n int)
	rec2 = func(w []int, n int) {
		operands := (len(w) + 1) / 2
		for i := 0; i < operands; i++ {
			for j := i; j < operands; j++ {
				if i == 0 && j == operands-1 && operands > 1 {
					// whole expression parenthesised: still interesting, keep
				}
				var v []int
				v = append(v, w[:2*i]...)
				v = append(v, t.LP)
				v = append(v, w[2*i:2*j+1]...)
				v = append(v, t.RP)
				v = append(v, w[2*j+1:]...)
				f(v)
				if t.Extras >= 2 {
					var u []int
					u = append(u, w[:2*i]...)
					u = append(u, t.Fn, t.LP)
					u = append(u, w[2*i:2*j+1]...)
					u = append(u, t.RP)
					u = append(u, w[2*j+1:]...)
					f(u)
				}
			}
		}
		if n == maxParenOps {
			return
		}
		for op := 0; op < t.NumOps; op++ {
			rec2(append(append(w[:len(w):len(w)], op), t.Atom), n+1)
		}
	}
	rec2([]int{t.Atom}, 0)
}

var c05History []int

func c05Table(ws *pipe.Workspace, r *px.Runner, ti int, t *gen.OpTable, maxOps, maxParenOps int, st *mc.Stats, only []int) []mc.Violation {
	hist := append([]int(nil), c05History...)
	c05History = append(c05History, ti)
	var out []mc.Violation
	g := t.Grammar
	b := px.Build(ws, g, px.NB)
	if b.Status != px.Accepted {
		raw, _ := json.Marshal(c05Case{Table: ti, Grammar: g, Text: g.LoxText()})
		if b.Status == px.Broken {
			st.HarnessError("operator table %d: %s", ti, b.Problem)
			return nil
		}
		return []mc.Violation{{Property: "C05", Check: "C05", Kind: "table-rejected", Size: ti, Case: raw,
			Detail: fmt.Sprintf("operator table grammar {%s} (every operator alternative qualified, one associativity per level) was not accepted: %s %s", g.String(), b.Status, firstLine(b.Res.Diag+b.Res.Panic))}}
	}
	st.Validated++
	b.Install(r.C)
	r.NStates = len(b.Actions)
	r.ResetCounts()
	rightLevels := map[int]bool{}
	for li, lv := range t.Levels {
		if lv.Assoc == gen.Right {
			rightLevels[li+1] = true
		}
	}
	nontriv := false
	check := func(w []int) {
		if len(out) >= 4 {
			return
		}
		st.Evaluations++
		toks := make([]int, len(w))
		for i, x := range w {
			toks[i] = px.LoxTok(x)
		}
		o := r.Run(toks)
		want := precTree(t, w, nil)
		report := func(kind, detail, known string) {
			var names []string
			for _, x := range w {
				names = append(names, g.Toks[x])
			}
			raw, _ := json.Marshal(c05Case{History: hist, Table: ti, Grammar: g, Text: g.LoxText(), Input: names, W: w})
			out = append(out, mc.Violation{Property: "C05", Check: "C05", Kind: kind, Size: len(w)*1000 + ti, Case: raw,
				Detail: fmt.Sprintf("grammar {%s} input %s: %s", g.String(), strings.Join(names, " "), detail), Known: known})
		}
		switch {
		case o.Panic != "":
			report("parser-panic", o.Panic, "")
			return
		case o.Hang != "":
			report("parser-hang-"+o.HangKind, o.Hang, "")
			return
		case o.Incon:
			st.Inconcl++
			return
		}
		if want == "" {
			st.HarnessError("precref rejected generated input %v", w)
			return
		}
		if !o.OK {
			report("rejects-expression", "parse() returned false on a well-formed expression", "")
			return
		}
		// the start rule's value is the last reduction's node
		var root *ctypes.Node
		for _, e := range o.Events {
			if e.Kind == ctypes.EvReduce {
				root = e.N
			}
		}
		got := implTree(t, b, root)
		if len(w) >= 5 {
			nontriv = true
		}
		if got != want {
			known := ""
			if len(rightLevels) > 0 && got == precTree(t, w, rightLevels) {
				known = "D2-right-assoc-reduces-C05"
			}
			report("wrong-grouping", "parser grouped "+got+", precedence climbing gives "+want, known)
		}
	}
	if only != nil {
		check(only)
	} else {
		c05Inputs(t, maxOps, maxParenOps, check)
	}
	st.States += int64(len(r.Configs))
	st.Transitions += r.Steps
	if nontriv {
		st.Nontrivial++
	}
	return out
}

func c05Worker(c *mc.Ctx) {
	ws := pipe.NewWorkspace("c05")
	defer ws.Close()
	r := px.NewRunner(px.NB)
	maxOps, maxParen := 6, 4
	if c.Quick() {
		maxOps, maxParen = 4, 2
	}
	for i, t := range gen.OpTables() {
		if !c.Mine(int64(i)) {
			continue
		}
		if len(c.Stats.Samples) < 2 {
			c.Stats.Sample(map[string]any{"grammar": t.Grammar.String(), "max_operators": maxOps})
		}
		for _, v := range c05Table(ws, r, i, t, maxOps, maxParen, &c.Stats, nil) {
			c.Stats.Violate(v)
		}
	}
}

func c05Replay(raw json.RawMessage) *mc.Violation {
	var cs c05Case
	if err := json.Unmarshal(raw, &cs); err != nil {
		return &mc.Violation{Property: "C05", Kind: "bad-replay", Detail: err.Error()}
	}
	ws := pipe.NewWorkspace("c05r")
	defer ws.Close()
	r := px.NewRunner(px.NB)
	var st mc.Stats
	tabs := gen.OpTables()
	if cs.Table < 0 || cs.Table >= len(tabs) {
		return nil
	}
	// re-create the process history first (build the same tables in the same order)
	for _, h := range cs.History {
		if h >= 0 && h < len(tabs) {
			px.Build(ws, tabs[h].Grammar, px.NB)
		}
	}
	vs := c05Table(ws, r, cs.Table, tabs[cs.Table], 4, 2, &st, cs.W)
	if len(vs) == 0 {
		return nil
	}
	return &vs[0]
}

func init() {
	mc.Register(&mc.Check{
		ID:    "C05",
		Level: "exploration",
		Rule: "operator tables: 1-3 levels x 1-2 operators per level x @left/@right per level x 3 declaration orders x {atoms, +parentheses, +unqualified call alternative, unary prefix operator sharing a binary operator's token at the tightest / loosest level}; level numerals written plainly, with leading zeros (9, 010, 011, ..) with wide gaps (1, 20, 300, ..) or in steps across 2^8 and 2^16 (253, 256, 259 / 65533, 65536, 65539); " +
			"inputs: every operator/operand chain up to the operator bound and every single-parenthesisation of the shorter chains, parsed by the real runtime with the grammar's real tables; tree from the reduce sequence compared with precedence climbing; " +
			"non-trivial = table whose chains of >= 2 operators were compared",
		Assume: []string{"reference: precedence climbing (cmd/loxmc/c05.go precref)", "mixed associativity inside one level is outside the statement and not generated"},
		Worker: c05Worker,
		Replay: c05Replay,
	})
}
