package main

import (
	"bytes"
	"encoding/json"
	"fmt"
	"github.com/dcaiafa/lox/verif/internal/root"
	goast "go/ast"
	goparser "go/parser"
	gotoken "go/token"
	gotypes "go/types"
	"os"
	"os/exec"
	"path/filepath"
	"sort"
	"strings"
	"time"

	"github.com/dcaiafa/lox/internal/parsergen/lr1"
	"github.com/dcaiafa/lox/verif/internal/mc"
	"github.com/dcaiafa/lox/verif/internal/pipe"
)

// ---------------------------------------------------------------------------
// A deliberately simple tokenizer of .lox text (the harness's own; only used
// to find places to mutate, so it does not have to agree with lox's lexer).

func loxTokens(src string) []string {
	var out []string
	i := 0
	isID := func(c byte) bool {
		return c == '_' || c >= '0' && c <= '9' || c >= 'a' && c <= 'z' || c >= 'A' && c <= 'Z'
	}
	for i < len(src) {
		c := src[i]
		switch {
		case c == ' ' || c == '\t' || c == '\r':
			j := i
			for j < len(src) && (src[j] == ' ' || src[j] == '\t' || src[j] == '\r') {
				j++
			}
			out = append(out, src[i:j])
			i = j
		case c == '\n':
			out = append(out, "\n")
			i++
		case c == '/' && i+1 < len(src) && src[i+1] == '/':
			j := i
			for j < len(src) && src[j] != '\n' {
				j++
			}
			out = append(out, src[i:j])
			i = j
		case c == '\'':
			j := i + 1
			for j < len(src) && src[j] != '\'' && src[j] != '\n' {
				if src[j] == '\\' && j+1 < len(src) {
					j++
				}
				j++
			}
			if j < len(src) && src[j] == '\'' {
				j++
			}
			out = append(out, src[i:j])
			i = j
		case c == '[':
			j := i + 1
			for j < len(src) && src[j] != ']' && src[j] != '\n' {
				if src[j] == '\\' && j+1 < len(src) {
					j++
				}
				j++
			}
			if j < len(src) && src[j] == ']' {
				j++
			}
			out = append(out, src[i:j])
			i = j
		case c == '@' || isID(c):
			j := i + 1
			for j < len(src) && isID(src[j]) {
				j++
			}
			out = append(out, src[i:j])
			i = j
		case (c == '*' || c == '+') && i+1 < len(src) && (src[i+1] == '?' || src[i+1] == '!'):
			out = append(out, src[i:i+2])
			i += 2
		default:
			out = append(out, src[i:i+1])
			i++
		}
	}
	return out
}

var c12Menu = []string{
	"@lexer", "@parser", "@start", "@discard", "@macro", "@frag", "@mode", "@push_mode", "@pop_mode", "@error",
	"@left", "@right", "@list", "@emit", "@empty", "@external", "@frog", "@",
	",", "=", "|", "{", "}", "~", "(", ")", "-", ".", "?", "*", "*?", "+", "+?", "*!", "\\", "\n", ";",
	"0", "1", "007", "2147483648", "9223372036854775808", "99999999999999999999",
	"''", "'a'", "'\\''", "'\\x41'", "'\\xff'", "'\\uD800'", "'\\UFFFFFFFF'", "'\\U00110000'", "'",
	"EOF", "ERROR", "S'", "a__b", "_a", "A_", "x", "X9",
	"[a]", "[]", "[a-]", "[-a]", "[z-a]", "[\\xff]", "[\\UFFFFFFFF]", "~[]", "[",
	"@left(0)", "@left(99999999999999999999)", "@right(-1)", "@list(", "@push_mode()",
	"[a-c]-[a]", "[a-z]-[a-z]", "[ace]-[a]", "[a-c]-[a-z]", "~[a]-[b]", "[a]-~[a]", "[a-c]-[b]-[c]",
}

var c12SmallMenu = []string{"@error", "@empty", "|", "=", "\n", "*!", "''", "99999999999999999999", "[z-a]", "(", "@left(0)"}

// menus for the pairs of deviations
var c12PairMenuQuick = []string{"@error", "|", "=", "''", "*!", "("}

var c12PairMenu = append(append([]string{}, c12PairMenuQuick...), "@empty", "\n", "?", ")", "@left(0)", "'+'", "x", "[a-c]-[a]", "@frag", "{", "}", "@list", "99999999999999999999")

var c12Bytes = []byte{0, '\n', '\r', '\'', '\\', '@', '[', ']', '{', '}', 0x80, 0xFF}

type c12Seed struct {
	name  string
	files map[string]string // .lox files
	main  string            // file that is mutated
	small bool              // full menu at every position
}

func c12Seeds(quick bool) []c12Seed {
	var seeds []c12Seed
	for bi, b := range c17Bases() {
		files, _ := b.render()
		seeds = append(seeds, c12Seed{name: fmt.Sprintf("c17base%d", bi), files: files, main: "a.lox", small: true})
	}
	tiny := "@lexer\nNUM = [0-9]+\nADD = '+'\n@frag [ \\n]+ @discard\n\n@parser\n@start e = e '+' t @left(1)\n  | t\nt = NUM | @error\n"
	seeds = append(seeds, c12Seed{name: "tiny", files: map[string]string{"a.lox": tiny}, main: "a.lox", small: true})
	rd := func(p string) string {
		b, err := os.ReadFile(p)
		if err != nil {
			return ""
		}
		return string(b)
	}
	calc := rd(root.RepoPath("examples/calc/calc.lox"))
	if calc == "" {
		if m, _ := filepath.Glob(root.RepoPath("examples/calc") + "/*.lox"); len(m) > 0 {
			calc = rd(m[0])
		}
	}
	if calc != "" {
		seeds = append(seeds, c12Seed{name: "examples/calc", files: map[string]string{"a.lox": calc}, main: "a.lox", small: !quick})
	}
	if !quick {
		for _, d := range []string{"internal/parser", "examples/jsonc", "examples/bolox"} {
			m, _ := filepath.Glob(root.RepoPath(d) + "/*.lox")
			if len(m) > 0 {
				seeds = append(seeds, c12Seed{name: d, files: map[string]string{"a.lox": rd(m[0])}, main: "a.lox", small: false})
			}
		}
	}
	return seeds
}

type c12Case struct {
	Seed  string            `json:"seed"`
	Mut   string            `json:"mutation"`
	Files map[string]string `json:"files"`
}

// userGoFor writes `any`-typed action methods for the grammar object lox
// itself built, so that mutants accepted by the front end also go through
// AssignActions and EmitParser.
func userGoFor(g *lr1.Grammar) string {
	var b strings.Builder
	b.WriteString("package carrier\n\ntype Token struct {\n\tType int\n\tIdx  int\n}\n\nfunc (t Token) Discard() bool { return false }\n\n// V is the result type of every rule (it has Discard so that it can be an element of x*!).\ntype V struct{}\n\nfunc (V) Discard() bool { return false }\n\ntype parser struct {\n\tlox\n}\n\n")
	if g == nil {
		return b.String()
	}
	seen := map[string]bool{}
	for _, p := range g.Prods {
		n := p.Rule.Name
		if n == lr1.SPrime || strings.ContainsAny(n, "*+?!@(),' ") {
			continue
		}
		k := fmt.Sprintf("%s__%d", n, len(p.Terms))
		if seen[k] {
			continue
		}
		seen[k] = true
		var ps []string
		for i := range p.Terms {
			ps = append(ps, fmt.Sprintf("a%d", i))
		}
		params := ""
		if len(ps) > 0 {
			params = strings.Join(ps, ", ") + " any"
		}
		fmt.Fprintf(&b, "func (p *parser) on_%s(%s) V { return V{} }\n", k, params)
	}
	return b.String()
}

// c12Run runs one specification through the whole pipeline and applies the
// oracle: returns; ok => three complete Go files; !ok => a diagnostic; never a panic.
func c12Run(ws *pipe.Workspace, files map[string]string) (kind, detail string) {
	front, _ := ws.RunFront(&pipe.Spec{Lox: files}, false)
	if front.Panic != "" {
		return "panic", "front end panicked: " + firstLines(front.Panic, 6)
	}
	if !front.OK {
		if strings.TrimSpace(front.Diag) == "" {
			return "silent-failure", "the front end refused the input without any diagnostic"
		}
		return "", ""
	}
	user := "package carrier\n\ntype Token struct {\n\tType int\n\tIdx  int\n}\n\ntype parser struct {\n\tlox\n}\n"
	if front.V != nil {
		user = userGoFor(front.V.Grammar)
	}
	res := ws.RunFast(&pipe.Spec{Lox: files, Go: map[string]string{"user.go": user}}, nil)
	if res.Panic != "" {
		return "panic", "generator panicked: " + firstLines(res.Panic, 6)
	}
	if !res.OK {
		if strings.TrimSpace(res.Diag) == "" {
			return "silent-failure", "generation failed at " + res.Stage + " without any diagnostic"
		}
		return "", ""
	}
	if res.Base == "" || res.Lexer == "" || res.Parser == "" {
		return "partial-output", "lox reported success but a generated file is missing"
	}
	fset := gotoken.NewFileSet()
	var parsed []*goast.File
	for n, src := range map[string]string{"base.gen.go": res.Base, "lexer.gen.go": res.Lexer, "parser.gen.go": res.Parser, "user.go": user} {
		f, err := goparser.ParseFile(fset, n, src, goparser.SkipObjectResolution)
		if err != nil {
			return "bad-output", n + " is not complete Go: " + err.Error()
		}
		parsed = append(parsed, f)
	}
	sort.Slice(parsed, func(i, j int) bool {
		return fset.Position(parsed[i].Pos()).Filename < fset.Position(parsed[j].Pos()).Filename
	})
	var terr error
	cfg := &gotypes.Config{Error: func(err error) {
		if terr == nil {
			terr = err
		}
	}}
	cfg.Check(pipe.PkgPath, fset, parsed, nil)
	if terr != nil {
		// Whether the generated files compile with the package is C06's
		// statement, not C12's (the files are complete); reported there.
		return "note", "generated files do not type-check with the package (C06's subject): " + terr.Error()
	}
	return "", ""
}

func firstLines(s string, n int) string {
	ls := strings.Split(s, "\n")
	var keep []string
	for _, l := range ls {
		if strings.Contains(l, root.Repo()+"/") || len(keep) == 0 {
			keep = append(keep, strings.TrimSpace(hexStrip(strings.ReplaceAll(l, root.Repo()+"/", "/repo/"))))
		}
		if len(keep) >= n {
			break
		}
	}
	return strings.Join(keep, " <- ")
}

func hexStrip(s string) string {
	// strip addresses and +0x offsets so that two replays print the same text
	var b strings.Builder
	for i := 0; i < len(s); i++ {
		if s[i] == '0' && i+1 < len(s) && s[i+1] == 'x' {
			j := i + 2
			for j < len(s) && (s[j] >= '0' && s[j] <= '9' || s[j] >= 'a' && s[j] <= 'f') {
				j++
			}
			b.WriteString("0x?")
			i = j - 1
			continue
		}
		b.WriteByte(s[i])
	}
	return b.String()
}

func c12Worker(c *mc.Ctx) {
	ws := pipe.NewWorkspace("c12")
	defer ws.Close()
	// Watchdog: a generator hang would freeze this worker. It is a safety net,
	// not an oracle: on expiry the shard stops, is marked inconclusive and
	// exits 0.
	var current string
	caseStart := time.Now()
	done := make(chan struct{})
	defer close(done)
	go func() {
		t := time.NewTicker(2 * time.Second)
		defer t.Stop()
		for {
			select {
			case <-done:
				return
			case <-t.C:
				// compiling the generator is not a case: it only gets a much longer allowance
				limit := 120 * time.Second
				if current == "building lox" {
					limit = 20 * time.Minute
				}
				if time.Since(caseStart) > limit {
					fmt.Fprintf(os.Stderr, "C12 worker %d: case %q exceeded the 120 s watchdog; shard marked inconclusive\n", c.Shard, current)
					c.Stats.Inconcl++
					c.Stats.Cap("a case exceeded the 120 s watchdog (possible generator hang, not decided): " + current)
					if c.Flush != nil {
						c.Flush()
					}
					os.Exit(0)
				}
			}
		}
	}()
	c.Touch = func(what string) {
		current = what
		caseStart = time.Now()
	}
	n := int64(0)
	try := func(seed *c12Seed, mut string, text string) {
		n++
		if !c.Mine(n) {
			return
		}
		files := map[string]string{}
		for k, v := range seed.files {
			files[k] = v
		}
		files[seed.main] = text
		current = seed.name + " " + mut
		caseStart = time.Now()
		c.Stats.Evaluations++
		kind, detail := c12Run(ws, files)
		if kind == "note" {
			c.Stats.Add("accepted_but_not_compiling_left_to_C06", 1)
			c.Stats.Note(detail)
			return
		}
		if kind != "" {
			raw, _ := json.Marshal(c12Case{Seed: seed.name, Mut: mut, Files: files})
			c.Stats.Violate(mc.Violation{Property: "C12", Check: "C12", Kind: kind + ":" + classifyPanic(detail), Size: len(text), Case: raw,
				Detail: fmt.Sprintf("seed %s, %s: %s", seed.name, mut, detail)})
		}
	}
	seeds := c12Seeds(c.Quick())
	if os.Getenv("C12_ONLY") == "packages" { // development aid: the real-binary axis alone
		seeds = nil
	}
	for _, seed := range seeds {
		seed := seed
		toks := loxTokens(seed.files[seed.main])
		join := func(ts []string) string { return strings.Join(ts, "") }
		menu := c12Menu
		if !seed.small {
			menu = c12SmallMenu
		}
		if len(c.Stats.Samples) < 3 {
			c.Stats.Sample(map[string]any{"seed": seed.name, "tokens": len(toks), "menu": len(menu), "example_mutation": "replace token #5 " + fmt.Sprintf("%q", toks[minInt(5, len(toks)-1)]) + " by " + fmt.Sprintf("%q", menu[0])})
		}
		try(&seed, "identity", join(toks))
		for i := range toks {
			if strings.TrimSpace(toks[i]) == "" && toks[i] != "\n" {
				continue // whitespace runs are not mutation sites
			}
			c.Stats.Nontrivial++
			del := append(append([]string{}, toks[:i]...), toks[i+1:]...)
			try(&seed, fmt.Sprintf("delete #%d %q", i, toks[i]), join(del))
			dup := append(append(append([]string{}, toks[:i+1]...), " ", toks[i]), toks[i+1:]...)
			try(&seed, fmt.Sprintf("duplicate #%d %q", i, toks[i]), join(dup))
			if i+1 < len(toks) {
				tr := append([]string{}, toks...)
				tr[i], tr[i+1] = tr[i+1], tr[i]
				try(&seed, fmt.Sprintf("transpose #%d", i), join(tr))
			}
			for _, m := range menu {
				rep := append([]string{}, toks...)
				rep[i] = m
				try(&seed, fmt.Sprintf("replace #%d %q by %q", i, toks[i], m), join(rep))
				ins := append(append(append([]string{}, toks[:i]...), m, " "), toks[i:]...)
				try(&seed, fmt.Sprintf("insert %q before #%d", m, i), join(ins))
			}
		}
		// line and block level: whole declarations deleted, repeated, moved, copied to the other files
		if seed.small {
			lines := strings.Split(strings.TrimRight(seed.files[seed.main], "\n"), "\n")
			joinL := func(ls []string) string { return strings.Join(ls, "\n") + "\n" }
			var others []string
			for f := range seed.files {
				if f != seed.main {
					others = append(others, f)
				}
			}
			sort.Strings(others)
			tryFiles := func(mut string, files map[string]string) {
				sd := c12Seed{name: seed.name, files: files, main: seed.main}
				try(&sd, mut, files[seed.main])
			}
			withOther := func(f, extra string) map[string]string {
				fs := map[string]string{}
				for k, v := range seed.files {
					fs[k] = v
				}
				fs[f] = strings.TrimRight(fs[f], "\n") + "\n" + extra
				return fs
			}
			// spans: single lines, and @mode blocks (from the "@mode .. {" line to its "}")
			type span struct{ a, b int } // lines[a:b]
			var spans []span
			for i := 0; i < len(lines); i++ {
				spans = append(spans, span{i, i + 1})
				if t := strings.TrimSpace(lines[i]); strings.HasPrefix(t, "@mode") && strings.HasSuffix(t, "{") {
					for j := i + 1; j < len(lines); j++ {
						if strings.TrimSpace(lines[j]) == "}" {
							spans = append(spans, span{i, j + 1})
							break
						}
					}
				}
			}
			for _, sp := range spans {
				if sp.b-sp.a == 1 && strings.TrimSpace(lines[sp.a]) == "" {
					continue
				}
				c.Stats.Nontrivial++
				what := fmt.Sprintf("lines %d..%d %q", sp.a+1, sp.b, lines[sp.a])
				chunk := lines[sp.a:sp.b]
				del := append(append([]string{}, lines[:sp.a]...), lines[sp.b:]...)
				try(&seed, "delete "+what, joinL(del))
				dup := append(append(append([]string{}, lines[:sp.b]...), chunk...), lines[sp.b:]...)
				try(&seed, "repeat "+what, joinL(dup))
				try(&seed, "repeat at the end "+what, joinL(append(append([]string{}, lines...), chunk...)))
				try(&seed, "move to the end "+what, joinL(append(append([]string{}, del...), chunk...)))
				try(&seed, "move to the top "+what, joinL(append(append([]string{}, chunk...), del...)))
				for _, f := range others {
					tryFiles("copy to "+f+" "+what, withOther(f, joinL(chunk)))
					tryFiles("copy to "+f+" under @lexer "+what, withOther(f, "@lexer\n"+joinL(chunk)))
				}
			}
		}
		// byte level
		text := seed.files[seed.main]
		stepT := 1
		if !seed.small {
			stepT = 7
		}
		for k := 0; k <= len(text); k += stepT {
			try(&seed, fmt.Sprintf("truncate at byte %d", k), text[:k])
		}
		for k := 0; k < len(text); k += stepT {
			for _, b := range c12Bytes {
				if text[k] == b {
					continue
				}
				try(&seed, fmt.Sprintf("byte %d -> 0x%02X", k, b), text[:k]+string([]byte{b})+text[k+1:])
			}
		}
	}
	// bound 2: every pair of deviations (at two different tokens) around the
	// tiny seed, from a reduced lexeme menu
	{
		var seed c12Seed
		for _, sd := range c12Seeds(c.Quick()) {
			if sd.name == "tiny" {
				seed = sd
			}
		}
		menu := c12PairMenuQuick
		if !c.Quick() {
			menu = c12PairMenu
		}
		toks := loxTokens(seed.files[seed.main])
		type mutation struct {
			site int
			desc string
			repl []string // what token #site becomes
		}
		var muts []mutation
		for i := range toks {
			if strings.TrimSpace(toks[i]) == "" && toks[i] != "\n" {
				continue
			}
			muts = append(muts, mutation{i, fmt.Sprintf("delete #%d %q", i, toks[i]), nil})
			for _, m := range menu {
				muts = append(muts, mutation{i, fmt.Sprintf("replace #%d %q by %q", i, toks[i], m), []string{m}})
				muts = append(muts, mutation{i, fmt.Sprintf("insert %q before #%d", m, i), []string{m, " ", toks[i]}})
			}
		}
		c.Stats.Sample(map[string]any{"seed": "tiny", "bound": 2, "single_deviations": len(muts), "menu": menu})
		for a := 0; a < len(muts); a++ {
			for b := a + 1; b < len(muts); b++ {
				if muts[a].site == muts[b].site {
					continue
				}
				n++
				if !c.Mine(n) {
					continue
				}
				n-- // try() counts again
				var out []string
				for i, t := range toks {
					switch i {
					case muts[a].site:
						out = append(out, muts[a].repl...)
					case muts[b].site:
						out = append(out, muts[b].repl...)
					default:
						out = append(out, t)
					}
				}
				try(&seed, muts[a].desc+" and "+muts[b].desc, strings.Join(out, ""))
			}
		}
	}
	// Go side: deviations of bound 1 around a well-formed user package (fast ParseGo).
	if os.Getenv("C12_ONLY") != "packages" {
		c12GoAxis(c, ws, &n)
	}
	// Go-package axis through the real binary.
	c12Packages(c, ws)
}

func minInt(a, b int) int {
	if a < b {
		return a
	}
	return b
}

func classifyPanic(detail string) string {
	// group violations by the innermost /repo frame so that each distinct
	// crash site is reported
	if i := strings.Index(detail, "/repo/"); i >= 0 {
		rest := detail[i:]
		if j := strings.IndexAny(rest, " <"); j > 0 {
			rest = rest[:j]
		}
		return rest
	}
	return "other"
}

// ---------------------------------------------------------------------------
// Go-package axis: a finite menu explored completely with the real binary.

type pkgConfig struct {
	name     string
	files    map[string]string // relative path -> content ("" = delete)
	mod      bool              // directory has a go.mod
	expectOK bool
	// sameAsValid: the sources are those of "valid" (only left-over generated
	// files differ), so the three generated files must equal what "valid" gets
	sameAsValid bool
}

const pkgLox = "@lexer\nNUM = [0-9]+\nADD = '+'\n@frag [ \\n]+ @discard\n@parser\n@start e = e ADD NUM | NUM\n"

const pkgUserOK = `package p

type Token struct {
	Type int
}

type parser struct {
	lox
}

func (p *parser) on_e__1(a any, b Token, c Token) any { return nil }
func (p *parser) on_e__2(a Token) any                 { return nil }
`

func c12PackageMenu() []pkgConfig {
	ok := func(name string, files map[string]string) pkgConfig {
		return pkgConfig{name: name, files: files, mod: true, expectOK: true}
	}
	bad := func(name string, files map[string]string) pkgConfig {
		return pkgConfig{name: name, files: files, mod: true}
	}
	rep := func(old, new string) string { return strings.Replace(pkgUserOK, old, new, 1) }
	stale := func(name string, files map[string]string) pkgConfig {
		return pkgConfig{name: name, files: files, mod: true, expectOK: true, sameAsValid: true}
	}
	menu := []pkgConfig{
		ok("valid", map[string]string{"g.lox": pkgLox, "user.go": pkgUserOK}),
		{name: "no-go-mod", files: map[string]string{"g.lox": pkgLox, "user.go": pkgUserOK}, mod: false},
		bad("no-go-file", map[string]string{"g.lox": pkgLox}),
		bad("only-test-go", map[string]string{"g.lox": pkgLox, "user_test.go": pkgUserOK}),
		bad("no-lox-file", map[string]string{"user.go": pkgUserOK}),
		bad("empty-lox", map[string]string{"g.lox": "", "user.go": pkgUserOK}),
		bad("go-syntax-error", map[string]string{"g.lox": pkgLox, "user.go": pkgUserOK + "\nfunc {"}),
		bad("go-type-error", map[string]string{"g.lox": pkgLox, "user.go": pkgUserOK + "\nvar x int = \"s\"\n"}),
		bad("no-token", map[string]string{"g.lox": pkgLox, "user.go": rep("type Token struct {\n\tType int\n}\n", "")}),
		bad("no-parser-struct", map[string]string{"g.lox": pkgLox, "user.go": "package p\n\ntype Token struct{ Type int }\n"}),
		bad("two-parser-structs", map[string]string{"g.lox": pkgLox, "user.go": pkgUserOK + "\ntype other struct{ lox }\n"}),
		bad("generic-parser-struct", map[string]string{"g.lox": pkgLox, "user.go": "package p\n\ntype Token struct{ Type int }\n\ntype parser[T any] struct {\n\tlox\n\tx T\n}\n"}),
		bad("lox-by-pointer", map[string]string{"g.lox": pkgLox, "user.go": rep("\tlox\n", "\t*lox\n")}),
		bad("lox-nested", map[string]string{"g.lox": pkgLox, "user.go": rep("\tlox\n", "\tinner struct{ lox }\n")}),
		bad("lox-named-field", map[string]string{"g.lox": pkgLox, "user.go": rep("\tlox\n", "\tl lox\n")}),
		bad("missing-action", map[string]string{"g.lox": pkgLox, "user.go": rep("func (p *parser) on_e__2(a Token) any                 { return nil }\n", "")}),
		bad("extra-action", map[string]string{"g.lox": pkgLox, "user.go": pkgUserOK + "\nfunc (p *parser) on_e__3(a, b Token) any { return nil }\n"}),
		bad("action-no-result", map[string]string{"g.lox": pkgLox, "user.go": rep("func (p *parser) on_e__2(a Token) any                 { return nil }", "func (p *parser) on_e__2(a Token) {}")}),
		bad("action-two-results", map[string]string{"g.lox": pkgLox, "user.go": rep("func (p *parser) on_e__2(a Token) any                 { return nil }", "func (p *parser) on_e__2(a Token) (any, error) { return nil, nil }")}),
		bad("action-returns-any-then-int", map[string]string{"g.lox": pkgLox, "user.go": rep("func (p *parser) on_e__1(a any, b Token, c Token) any { return nil }", "func (p *parser) on_e__1(a any, b Token, c Token) any { return nil }") + ""}),
		bad("action-returns-differ-assignable", map[string]string{"g.lox": pkgLox, "user.go": rep("func (p *parser) on_e__2(a Token) any                 { return nil }", "func (p *parser) on_e__2(a Token) int { return 0 }")}),
		bad("action-returns-differ-assignable-reversed", map[string]string{"g.lox": pkgLox, "user.go": rep("func (p *parser) on_e__1(a any, b Token, c Token) any { return nil }", "func (p *parser) on_e__1(a any, b Token, c Token) int { return 0 }")}),
		bad("action-unknown-rule", map[string]string{"g.lox": pkgLox, "user.go": pkgUserOK + "\nfunc (p *parser) on_zzz(a Token) any { return nil }\n"}),
		bad("action-variadic", map[string]string{"g.lox": pkgLox, "user.go": rep("func (p *parser) on_e__2(a Token) any                 { return nil }", "func (p *parser) on_e__2(a ...Token) any { return nil }")}),
		ok("token-alias-to-struct", map[string]string{"g.lox": pkgLox, "user.go": rep("type Token struct {\n\tType int\n}\n", "type tok struct{ Type int }\n\ntype Token = tok\n")}),
		ok("token-is-int", map[string]string{"g.lox": pkgLox, "user.go": rep("type Token struct {\n\tType int\n}\n", "type Token int\n")}),
		stale("stale-generated-files", map[string]string{"g.lox": pkgLox, "user.go": pkgUserOK, "parser.gen.go": "package p\n\nfunc broken( {\n", "lexer.gen.go": "package p\nvar _x = \n"}),
		ok("stale-base-other-package", map[string]string{"g.lox": pkgLox, "user.go": pkgUserOK, "zbase.gen.go": ""}),
		stale("truncated-base", map[string]string{"g.lox": pkgLox, "user.go": pkgUserOK, "base.gen.go": "package p\n\nconst (\n\tEOF int = 0\n"}),
		bad("conflicts", map[string]string{"g.lox": "@lexer\nA = 'a'\n@parser\n@start e = e e | A\n", "user.go": pkgUserOK}),
		bad("lox-syntax-error", map[string]string{"g.lox": "@lexer\nA = = 'a'\n", "user.go": pkgUserOK}),
		bad("lox-is-directory", map[string]string{"g.lox/x": "", "user.go": pkgUserOK}),
		bad("package-main-mismatch", map[string]string{"g.lox": pkgLox, "user.go": pkgUserOK, "other.go": "package q\n"}),
		// left-over generated files that are LONGER than what this run writes
		stale("stale-longer-comment-tail", map[string]string{"g.lox": pkgLox, "user.go": pkgUserOK,
			"base.gen.go": pkgFiller("p", 4000, true), "lexer.gen.go": pkgFiller("p", 4000, true), "parser.gen.go": pkgFiller("p", 4000, true)}),
		stale("stale-longer-parser-only", map[string]string{"g.lox": pkgLox, "user.go": pkgUserOK, "parser.gen.go": pkgFiller("p", 4000, false)}),
		stale("stale-longer-lexer-only", map[string]string{"g.lox": pkgLox, "user.go": pkgUserOK, "lexer.gen.go": pkgFiller("p", 4000, true)}),
		ok("onbounds", map[string]string{"g.lox": pkgLox, "user.go": pkgUserOK + "\nfunc (p *parser) _onBounds(r any, b, e Token) {}\n"}),
		bad("onbounds-wrong-signature", map[string]string{"g.lox": pkgLox, "user.go": pkgUserOK + "\nfunc (p *parser) _onBounds(r any) {}\n"}),
		ok("import-stdlib", map[string]string{"g.lox": pkgLox, "user.go": strings.Replace(rep("func (p *parser) on_e__2(a Token) any                 { return nil }", "func (p *parser) on_e__2(a Token) any { return strings.ToUpper(\"x\") }"), "package p\n", "package p\n\nimport \"strings\"\n", 1)}),
		bad("import-missing-package", map[string]string{"g.lox": pkgLox, "user.go": strings.Replace(pkgUserOK, "package p\n", "package p\n\nimport _ \"example.com/nope\"\n", 1)}),
		// errors that `go list` itself reports (packages.ListError), not the parser or the type checker
		bad("import-cycle", map[string]string{"g.lox": pkgLox, "user.go": strings.Replace(pkgUserOK, "package p\n", "package p\n\nimport _ \"example.com/p/r\"\n", 1), "r/r.go": "package r\n\nimport _ \"example.com/p\"\n"}),
		bad("import-self", map[string]string{"g.lox": pkgLox, "user.go": strings.Replace(pkgUserOK, "package p\n", "package p\n\nimport _ \"example.com/p\"\n", 1)}),
		bad("import-internal-of-std", map[string]string{"g.lox": pkgLox, "user.go": strings.Replace(pkgUserOK, "package p\n", "package p\n\nimport _ \"internal/abi\"\n", 1)}),
		bad("import-main-package", map[string]string{"g.lox": pkgLox, "user.go": strings.Replace(pkgUserOK, "package p\n", "package p\n\nimport _ \"example.com/p/m\"\n", 1), "m/m.go": "package main\n\nfunc main() {}\n"}),
		bad("import-empty-directory", map[string]string{"g.lox": pkgLox, "user.go": strings.Replace(pkgUserOK, "package p\n", "package p\n\nimport _ \"example.com/p/e\"\n", 1), "e/readme.txt": "no go files\n"}),
		bad("import-c-without-cgo-file", map[string]string{"g.lox": pkgLox, "user.go": pkgUserOK, "c.go": "package p\n\n// #include <nosuchheader.h>\nimport \"C\"\n"}),
		bad("go-file-bad-package-clause", map[string]string{"g.lox": pkgLox, "user.go": pkgUserOK, "other.go": "pakage p\n"}),
		bad("go-file-empty", map[string]string{"g.lox": pkgLox, "user.go": pkgUserOK, "other.go": ""}),
		bad("go-file-invalid-build-constraint", map[string]string{"g.lox": pkgLox, "user.go": "//go:build (((\n\n" + pkgUserOK}),
		bad("all-go-files-excluded-by-constraint", map[string]string{"g.lox": pkgLox, "user.go": "//go:build ignore\n\n" + pkgUserOK}),
		bad("embed-missing-file", map[string]string{"g.lox": pkgLox, "user.go": strings.Replace(pkgUserOK, "package p\n", "package p\n\nimport _ \"embed\"\n\n//go:embed nosuchfile.txt\nvar data string\n", 1)}),
	}
	// Output faults: the environment refuses to take one or more of the three
	// generated files (every non-empty subset), because a directory sits at the
	// file's path or the path is a symbolic link into a directory that does not
	// exist. The run cannot produce all three files, so it must fail loudly. A
	// link to a writable file elsewhere is no fault: the output goes through it.
	gens := []string{"base.gen.go", "lexer.gen.go", "parser.gen.go"}
	for mask := 1; mask < 8; mask++ {
		for _, kind := range []string{"dir", "dangling", "link"} {
			files := map[string]string{"g.lox": pkgLox, "user.go": pkgUserOK}
			name := "output-" + kind
			for i, g := range gens {
				if mask&(1<<i) == 0 {
					continue
				}
				name += "-" + strings.TrimSuffix(g, ".gen.go")
				switch kind {
				case "dir":
					files[g+"/keep.txt"] = "in the way\n"
				case "dangling":
					files[g] = "symlink:nosuchdir/" + g
				case "link":
					files["elsewhere/"+g+".txt"] = pkgFiller("p", 3000, true)
					files[g] = "symlink:elsewhere/" + g + ".txt"
				}
			}
			if kind == "link" {
				menu = append(menu, stale(name, files))
			} else {
				menu = append(menu, bad(name, files))
			}
		}
	}
	return menu
}

// pkgFiller is a well-formed Go file of about n lines that a run of lox must
// replace completely: a comment tail of lines of different lengths (so that a
// file overwritten in place without being shortened does not end on a line
// boundary), or declarations.
func pkgFiller(pkg string, n int, comments bool) string {
	var b strings.Builder
	b.WriteString("package " + pkg + "\n\n")
	for i := 0; i < n; i++ {
		if comments {
			b.WriteString("// filler " + strings.Repeat("x", i%7) + "\n")
		} else {
			fmt.Fprintf(&b, "var _filler%d = %d\n", i, i)
		}
	}
	return b.String()
}

func c12Packages(c *mc.Ctx, ws *pipe.Workspace) {
	bin := filepath.Join(ws.Root, "lox.bin")
	built := false
	var validOut map[string]string // generated files of the "valid" configuration, on demand
	for i, pc := range c12PackageMenu() {
		if !c.Mine(int64(i)) {
			continue
		}
		if c.Touch != nil {
			c.Touch("building lox")
		}
		if !built {
			if out, err := run(root.Repo(), "go", "build", "-o", bin, "./cmd/lox"); err != nil {
				c.Stats.HarnessError("cannot build lox: %v: %s", err, out)
				return
			}
			built = true
		}
		if c.Touch != nil {
			c.Touch("package configuration " + pc.name)
		}
		dir := filepath.Join(ws.Root, "pkg", pc.name)
		os.RemoveAll(filepath.Join(ws.Root, "pkg"))
		os.MkdirAll(dir, 0o777)
		var names []string
		for n := range pc.files {
			names = append(names, n)
		}
		sort.Strings(names)
		for _, n := range names {
			t := pc.files[n]
			p := filepath.Join(dir, n)
			os.MkdirAll(filepath.Dir(p), 0o777)
			if target, ok := strings.CutPrefix(t, "symlink:"); ok {
				os.Symlink(target, p)
				continue
			}
			os.WriteFile(p, []byte(t), 0o666)
		}
		if pc.mod {
			os.WriteFile(filepath.Join(dir, "go.mod"), []byte("module example.com/p\n\ngo 1.23\n"), 0o666)
		}
		start := time.Now()
		cmd := exec.Command(bin, ".")
		cmd.Dir = dir
		var stdout, stderr bytes.Buffer
		cmd.Stdout, cmd.Stderr = &stdout, &stderr
		err := cmd.Run()
		c.Stats.Evaluations++
		c.Stats.Nontrivial++
		c.Stats.Add("package_configurations", 1)
		exit := 0
		if err != nil {
			if ee, ok := err.(*exec.ExitError); ok {
				exit = ee.ExitCode()
			} else {
				c.Stats.HarnessError("cannot run lox: %v", err)
				continue
			}
		}
		_ = start
		report := func(kind, detail string) {
			raw, _ := json.Marshal(map[string]any{"package_config": pc.name, "files": pc.files, "go_mod": pc.mod})
			c.Stats.Violate(mc.Violation{Property: "C12", Check: "C12", Kind: "pkg-" + kind + ":" + pc.name, Size: i, Case: raw,
				Detail: fmt.Sprintf("package configuration %q: %s (exit %d, stderr: %s)", pc.name, detail, exit, firstLines(stderr.String(), 3))})
		}
		gen := 0
		for _, f := range []string{"base.gen.go", "lexer.gen.go", "parser.gen.go"} {
			b, err := os.ReadFile(filepath.Join(dir, f))
			if err == nil {
				if _, perr := goparser.ParseFile(gotoken.NewFileSet(), f, b, 0); perr == nil && len(b) > 0 {
					gen++
				}
			}
		}
		if strings.Contains(stderr.String(), "panic:") || strings.Contains(stderr.String(), "goroutine ") || exit == 2 {
			report("panic", "lox panicked")
			continue
		}
		if exit == 0 && gen == 3 && pc.sameAsValid {
			if validOut == nil {
				validOut = map[string]string{}
				vdir := filepath.Join(ws.Root, "pkgvalid")
				os.RemoveAll(vdir)
				os.MkdirAll(vdir, 0o777)
				for n, t := range c12PackageMenu()[0].files {
					os.WriteFile(filepath.Join(vdir, n), []byte(t), 0o666)
				}
				os.WriteFile(filepath.Join(vdir, "go.mod"), []byte("module example.com/p\n\ngo 1.23\n"), 0o666)
				vc := exec.Command(bin, ".")
				vc.Dir = vdir
				if out, err := vc.CombinedOutput(); err != nil {
					c.Stats.HarnessError("the valid package configuration failed: %v %s", err, firstLine(string(out)))
				}
				for _, f := range []string{"base.gen.go", "lexer.gen.go", "parser.gen.go"} {
					b, _ := os.ReadFile(filepath.Join(vdir, f))
					validOut[f] = string(b)
				}
			}
			for _, f := range []string{"base.gen.go", "lexer.gen.go", "parser.gen.go"} {
				b, _ := os.ReadFile(filepath.Join(dir, f))
				if string(b) != validOut[f] {
					report("partial-output", fmt.Sprintf("exit 0, but %s is not the generated output (a left-over file was not replaced completely): %s", f, pipe.FirstDiff(string(b), validOut[f])))
					break
				}
			}
		}
		switch {
		case exit == 0 && gen != 3:
			report("partial-output", fmt.Sprintf("exit 0 with %d of 3 complete generated files", gen))
		case exit != 0 && withoutTrailer(stderr.String()) == "":
			// "Error: errors ocurred" is what main prints after every failed run; it
			// says that diagnostics were printed, it is not one
			report("silent-failure", "non-zero exit without a diagnostic")
		case exit == 0 && !pc.expectOK && pc.mod:
			c.Stats.Note("package configuration " + pc.name + " was accepted (not a C12 matter)")
		case exit != 0 && pc.expectOK:
			c.Stats.Note("package configuration " + pc.name + " was refused: " + firstLine(stderr.String()) + " (not a C12 matter)")
		}
	}
}

// withoutTrailer removes the line main prints after every failed generation.
func withoutTrailer(stderr string) string {
	var keep []string
	for _, l := range strings.Split(stderr, "\n") {
		if t := strings.TrimSpace(l); t != "" && t != "Error: errors ocurred" {
			keep = append(keep, t)
		}
	}
	return strings.Join(keep, "\n")
}

func c12Replay(raw json.RawMessage) *mc.Violation {
	if v, ok := c12GoReplay(raw); ok {
		return v
	}
	var cs c12Case
	var pkgProbe struct {
		Name string `json:"package_config"`
	}
	json.Unmarshal(raw, &pkgProbe)
	if err := json.Unmarshal(raw, &cs); err != nil || cs.Files == nil || pkgProbe.Name != "" {
		// package-axis cases are replayed by running the menu entry again
		var pc struct {
			Name string `json:"package_config"`
		}
		json.Unmarshal(raw, &pc)
		ws := pipe.NewWorkspace("c12r")
		defer ws.Close()
		ctx := &mc.Ctx{NShards: 1}
		c12Packages(ctx, ws)
		for _, v := range ctx.Stats.Violations {
			if strings.HasSuffix(v.Kind, ":"+pc.Name) {
				return &v
			}
		}
		return nil
	}
	ws := pipe.NewWorkspace("c12r")
	defer ws.Close()
	kind, detail := c12Run(ws, cs.Files)
	if kind == "" || kind == "note" {
		return nil
	}
	return &mc.Violation{Property: "C12", Check: "C12", Kind: kind + ":" + classifyPanic(detail), Detail: fmt.Sprintf("seed %s, %s: %s", cs.Seed, cs.Mut, detail)}
}

func init() {
	mc.Register(&mc.Check{
		ID:    "C12",
		Level: "fault_enumeration",
		Rule: "deviation-bounded exploration around valid inputs (bound 1): seeds = well-formed specifications (C17's bases, a tiny expression grammar, the bundled examples; thorough: lox's own parser.lox and all examples); at EVERY token position: delete, duplicate, transpose, replace by / insert each lexeme of a menu of ~75 extremes (every keyword, every punctuation, huge and zero numbers, degenerate literals and classes, reserved and ill-formed names); every declaration line and every @mode block deleted, repeated in place / at the end, moved to the end / top, copied into each other file of the specification; every byte-level truncation; every single-byte substitution by 12 special bytes; bound 2: every pair of {delete, replace by, insert} deviations at two different tokens of the tiny expression grammar from a reduced menu of 6 (thorough: 19) lexemes; " +
			"each case runs the whole pipeline in process under recover() (front end, then - with action methods derived from the grammar object lox built - AssignActions and EmitParser); oracle: returns; success => three generated files that parse and type-check with the package; failure => at least one diagnostic; never a panic. " +
			"Go-package axis: a finite menu of ~40 package configurations (missing/ill-typed/ill-shaped packages, stale / truncated / longer left-over generated files which must be replaced completely, no go.mod) run through the real binary; non-trivial = one mutation site or package configuration",
		Assume: []string{
			"hangs: no exact criterion inside the generator; a 120 s per-case watchdog ends the shard as inconclusive (exit 0, exhaustive:false), never a violation",
			"bound 1 only: inputs at distance >= 2 from a seed are not explored",
		},
		Worker: c12Worker,
		Replay: c12Replay,
	})
}
