//go:build maporder

package main

import (
	"crypto/sha256"
	"encoding/json"
	"fmt"
	"github.com/dcaiafa/lox/verif/internal/root"
	"os"
	"sort"
	"strings"

	"github.com/dcaiafa/lox/internal/base/verifmap"
	"github.com/dcaiafa/lox/verif/internal/gen"
	"github.com/dcaiafa/lox/verif/internal/mc"
	"github.com/dcaiafa/lox/verif/internal/pipe"
)

// This file is only compiled into bin/loxmc-maporder, the binary built with the
// map-order seam (every map range of lox rewritten over verifmap.Keys).

type occ struct {
	site string
	n    int
}

type moSpec struct {
	Name string            `json:"name"`
	Lox  map[string]string `json:"lox"`
	Go   map[string]string `json:"go"`
}

type moCase struct {
	Spec     moSpec         `json:"spec"`
	Schedule map[string]any `json:"schedule"`
}

func permsOf(n int) [][]int {
	id := make([]int, n)
	for i := range id {
		id[i] = i
	}
	var out [][]int
	if n <= 3 {
		var rec func(cur []int, used []bool)
		rec = func(cur []int, used []bool) {
			if len(cur) == n {
				same := true
				for i, v := range cur {
					if v != i {
						same = false
					}
				}
				if !same {
					out = append(out, append([]int(nil), cur...))
				}
				return
			}
			for i := 0; i < n; i++ {
				if !used[i] {
					used[i] = true
					rec(append(cur, i), used)
					used[i] = false
				}
			}
		}
		rec(nil, make([]bool, n))
		return out
	}
	rev := make([]int, n)
	rot := make([]int, n)
	for i := range id {
		rev[i] = n - 1 - i
		rot[i] = (i + 1) % n
	}
	sf := append([]int(nil), id...)
	sf[0], sf[1] = 1, 0
	sl := append([]int(nil), id...)
	sl[n-1], sl[n-2] = n-2, n-1
	return [][]int{rev, rot, sf, sl}
}

func policyPerm(policy string, n int) []int {
	p := make([]int, n)
	for i := range p {
		switch policy {
		case "reverse":
			p[i] = n - 1 - i
		case "rotate":
			p[i] = (i + 1) % n
		default:
			p[i] = i
		}
	}
	return p
}

func outputsHash(res *pipe.Result, report string) string {
	h := sha256.New()
	for _, s := range []string{res.Base, "\x00", res.Lexer, "\x00", res.Parser, "\x00", report, "\x00", fmt.Sprint(res.OK), res.Diag} {
		h.Write([]byte(s))
	}
	return fmt.Sprintf("%x", h.Sum(nil)[:8])
}

func moSpecs(quick bool) []moSpec {
	var specs []moSpec
	rd := func(p string) string {
		b, _ := os.ReadFile(p)
		return string(b)
	}
	// enumerated members chosen so that the rewritten sites iterate several keys
	gs := []*gen.Grammar{}
	sp := gen.NewSpace(3, 3, 2, 2, false)
	want := 6
	if !quick {
		want = 20
	}
	for i := int64(0); i < sp.Size() && len(gs) < want; i += 7919 {
		if g := sp.Get(i); g != nil && len(g.Toks) == 3 {
			gs = append(gs, g)
		}
	}
	for i, g := range gs {
		specs = append(specs, moSpec{Name: fmt.Sprintf("enum%d {%s}", i, g.String()), Lox: map[string]string{"g.lox": g.LoxText()}, Go: map[string]string{"user.go": g.CarrierUserGo(i%2 == 0)}})
	}
	// imported types in action signatures: exercises the import alias table
	specs = append(specs, moSpec{Name: "imports", Lox: map[string]string{"g.lox": "@lexer\nX = 'x'\nY = 'y'\nZ = 'z'\n@parser\n@start s = a b c\na = X\nb = Y\nc = Z\n"},
		Go: map[string]string{"user.go": "package carrier\n\nimport (\n\t\"bytes\"\n\t\"strings\"\n\t\"time\"\n)\n\ntype Token struct{ Type int }\n\ntype parser struct{ lox }\n\nfunc (p *parser) on_a(_ Token) time.Duration { return 1 }\nfunc (p *parser) on_b(_ Token) *strings.Builder { return nil }\nfunc (p *parser) on_c(_ Token) *bytes.Buffer { return nil }\nfunc (p *parser) on_s(a time.Duration, b *strings.Builder, c *bytes.Buffer) int { return 0 }\n"}})
	// the same, with the imported types first named by different productions
	specs = append(specs, moSpec{Name: "imports-spread", Lox: map[string]string{"g.lox": "@lexer\nX = 'x'\nY = 'y'\nZ = 'z'\n@parser\n@start s = p q\np = a\nq = b c\na = X\nb = Y\nc = Z\n"},
		Go: map[string]string{"user.go": "package carrier\n\nimport (\n\t\"bytes\"\n\t\"container/list\"\n\t\"container/ring\"\n\t\"strings\"\n\t\"time\"\n)\n\ntype Token struct{ Type int }\n\ntype parser struct{ lox }\n\n" +
			"func (p *parser) on_a(_ Token) time.Duration { return 1 }\nfunc (p *parser) on_b(_ Token) *strings.Builder { return nil }\nfunc (p *parser) on_c(_ Token) *bytes.Buffer { return nil }\n" +
			"func (p *parser) on_p(a time.Duration) *list.List { return nil }\nfunc (p *parser) on_q(b *strings.Builder, c *bytes.Buffer) *ring.Ring { return nil }\nfunc (p *parser) on_s(x *list.List, y *ring.Ring) int { return 0 }\n"}})
	// rules named like the built-in terminals, met in one state with @error and
	// the end of input: an order "by name" ties there
	specs = append(specs, moSpec{Name: "rules-named-like-builtins", Lox: map[string]string{"g.lox": "@lexer\nX = 'x'\nY = 'y'\nSEMI = ';'\nLP = '('\nRP = ')'\n@parser\n@start s = stmt+\nstmt = ERROR SEMI | LP s RP | @error SEMI | EOF RP\nERROR = X | Y\nEOF = SEMI X\n"}})
	for bi, b := range c17Bases() {
		files, _ := b.render()
		specs = append(specs, moSpec{Name: fmt.Sprintf("c17base%d", bi), Lox: files, Go: nil})
	}
	if m := rd(root.RepoPath("examples/calc/calc.lox")); m != "" {
		specs = append(specs, moSpec{Name: "examples/calc", Lox: map[string]string{"calc.lox": m}})
	}
	if !quick {
		specs = append(specs, moSpec{Name: "internal/parser", Lox: map[string]string{"parser.lox": rd(root.RepoPath("internal/parser/parser.lox"))}})
		specs = append(specs, moSpec{Name: "examples/jsonc", Lox: map[string]string{"jsonc.lox": rd(root.RepoPath("examples/jsonc/jsonc.lox"))}})
	}
	return specs
}

// moRun runs the whole pipeline once under chooser and returns a hash of all outputs.
func moRun(ws *pipe.Workspace, s *moSpec, chooser func(site string, occ, n int) []int) (string, []occ, string) {
	goFiles := s.Go
	if goFiles == nil {
		// action methods derived from the grammar object, as in C12
		front, _ := ws.RunFront(&pipe.Spec{Lox: s.Lox}, false)
		if front.V != nil && front.OK {
			goFiles = map[string]string{"user.go": userGoFor(front.V.Grammar)}
		} else {
			goFiles = map[string]string{"user.go": userGoFor(nil)}
		}
		s.Go = goFiles
	}
	var occs []occ
	verifmap.Reset()
	verifmap.Chooser = func(site string, o, n int) []int {
		occs = append(occs, occ{site, n})
		if chooser == nil {
			return nil
		}
		return chooser(site, o, n)
	}
	res, report := ws.RunFastReport(&pipe.Spec{Lox: s.Lox, Go: goFiles}, importerFor())
	verifmap.Chooser = nil
	if res.Panic != "" {
		return "", occs, "panic: " + firstLine(res.Panic)
	}
	return outputsHash(res, report), occs, ""
}

func c13MapOrderWorker(c *mc.Ctx) {
	ws := pipe.NewWorkspace("c13mo")
	defer ws.Close()
	specs := moSpecs(c.Quick())
	for si := range specs {
		if !c.Mine(int64(si)) {
			continue
		}
		s := &specs[si]
		base, occs, perr := moRun(ws, s, nil)
		c.Stats.Evaluations++
		c.Stats.Transitions++
		if perr != "" {
			c.Stats.Note("spec " + s.Name + ": " + perr)
			continue
		}
		if verifmap.Ambiguous > 0 {
			c.Stats.Cap(fmt.Sprintf("spec %s: %d map iterations had keys without a canonical order", s.Name, verifmap.Ambiguous))
		}
		c.Stats.States += int64(len(occs))
		siteSet := map[string]int{}
		maxN := map[string]int{}
		for _, o := range occs {
			siteSet[o.site]++
			if o.n > maxN[o.site] {
				maxN[o.site] = o.n
			}
		}
		c.Stats.Nontrivial++
		c.Stats.Sample(map[string]any{"spec": s.Name, "dynamic_map_iterations": len(occs), "static_sites_reached": len(siteSet), "largest_map": maxN})
		outputs := map[string]bool{base: true}
		violate := func(sched map[string]any, h string) {
			raw, _ := json.Marshal(moCase{Spec: *s, Schedule: sched})
			c.Stats.Violate(mc.Violation{Property: "C13", Check: "C13", Kind: "map-order:" + fmt.Sprint(sched["site"]), Size: len(fmt.Sprint(sched)), Case: raw,
				Detail: fmt.Sprintf("spec %s: output depends on map iteration order: schedule %v produced different generated files / report / diagnostics than the canonical order", s.Name, sched)})
		}
		// bound 1: one deviation at one dynamic occurrence
		for oi, o := range occs {
			if o.n < 2 {
				continue
			}
			for _, p := range permsOf(o.n) {
				p := p
				h, _, perr := moRun(ws, s, func(site string, k, n int) []int {
					if k == oi && n == len(p) {
						return p
					}
					return nil
				})
				c.Stats.Evaluations++
				c.Stats.Transitions++
				if perr != "" || h != base {
					outputs[h] = true
					violate(map[string]any{"kind": "one occurrence", "site": o.site, "occurrence": oi, "permutation": p}, h)
					break
				}
			}
		}
		// site-uniform policies, one site, then (thorough) two sites
		var sites []string
		for st := range siteSet {
			if maxN[st] >= 2 {
				sites = append(sites, st)
			}
		}
		sort.Strings(sites)
		runPolicy := func(pol map[string]string) {
			h, _, perr := moRun(ws, s, func(site string, k, n int) []int {
				if p, ok := pol[site]; ok {
					return policyPerm(p, n)
				}
				return nil
			})
			c.Stats.Evaluations++
			c.Stats.Transitions++
			if perr != "" || h != base {
				outputs[h] = true
				var ks []string
				for k := range pol {
					ks = append(ks, k)
				}
				sort.Strings(ks)
				violate(map[string]any{"kind": "site-uniform policy", "site": strings.Join(ks, "+"), "policy": pol}, h)
			}
		}
		for _, st := range sites {
			for _, pol := range []string{"reverse", "rotate"} {
				runPolicy(map[string]string{st: pol})
			}
		}
		if !c.Quick() {
			for i := range sites {
				for j := i + 1; j < len(sites); j++ {
					for _, p1 := range []string{"reverse", "rotate"} {
						for _, p2 := range []string{"reverse", "rotate"} {
							runPolicy(map[string]string{sites[i]: p1, sites[j]: p2})
						}
					}
				}
			}
		}
		all := map[string]string{}
		for _, st := range sites {
			all[st] = "reverse"
		}
		runPolicy(all)
		c.Stats.Add("distinct_outputs_max", int64(len(outputs)))
	}
}

func c13MapOrderReplay(raw json.RawMessage) *mc.Violation {
	var cs moCase
	if err := json.Unmarshal(raw, &cs); err != nil {
		return nil
	}
	ws := pipe.NewWorkspace("c13mor")
	defer ws.Close()
	base, _, _ := moRun(ws, &cs.Spec, nil)
	var chooser func(site string, k, n int) []int
	switch cs.Schedule["kind"] {
	case "one occurrence":
		oi := int(cs.Schedule["occurrence"].(float64))
		var p []int
		for _, x := range cs.Schedule["permutation"].([]any) {
			p = append(p, int(x.(float64)))
		}
		chooser = func(site string, k, n int) []int {
			if k == oi && n == len(p) {
				return p
			}
			return nil
		}
	default:
		pol := map[string]string{}
		for k, v := range cs.Schedule["policy"].(map[string]any) {
			pol[k] = v.(string)
		}
		chooser = func(site string, k, n int) []int {
			if p, ok := pol[site]; ok {
				return policyPerm(p, n)
			}
			return nil
		}
	}
	h, _, perr := moRun(ws, &cs.Spec, chooser)
	if perr == "" && h == base {
		return nil
	}
	return &mc.Violation{Property: "C13", Check: "C13", Kind: "map-order:" + fmt.Sprint(cs.Schedule["site"]), Detail: fmt.Sprintf("spec %s: schedule %v changes the output", cs.Spec.Name, cs.Schedule)}
}

func init() {
	mc.Register(&mc.Check{ID: "C13maporder", Level: "model_checking", Worker: c13MapOrderWorker, Replay: c13MapOrderReplay})
}
