package main

import (
	"encoding/json"
	"fmt"
	"strings"

	"github.com/dcaiafa/lox/verif/internal/cfgref"
	"github.com/dcaiafa/lox/verif/internal/ctypes"
	"github.com/dcaiafa/lox/verif/internal/gen"
	"github.com/dcaiafa/lox/verif/internal/mc"
	"github.com/dcaiafa/lox/verif/internal/pipe"
	"github.com/dcaiafa/lox/verif/internal/px"
)

const loxERROR = 1
const refLexErr = 250 // reference symbol for a lexer ERROR token in the input: matches nothing

type c09Params struct {
	fams   []family
	L      int   // all strings up to this length over tokens + ERROR
	Lpump  int   // strings up to this length are pumped
	Ks     []int // pump factors
	Hooked bool  // also run with @error actions calling recoverLookahead
}

func c09Families(quick bool) c09Params {
	if quick {
		return c09Params{
			fams: []family{
				{Name: "error", Space: gen.NewSpace(2, 2, 2, 2, true)},
				{Name: "error-sugar", Space: gen.NewSpace(2, 2, 2, 2, true), Sugar: true, Limit: 2500},
				{Name: "error3", Space: gen.NewSpace(3, 2, 2, 2, true), Limit: 300000},
				{Name: "error-names-builtin", Space: gen.NewSpace(2, 2, 2, 2, true), Limit: 60000, Names: 3},
				// terminal numbers of two digits beside state numbers of one and two
				{Name: "error-pad9", Space: gen.NewSpace(2, 2, 2, 2, true), Limit: 60000, Pad: 9},
			},
			L: 5, Lpump: 3, Ks: []int{8}, Hooked: false,
		}
	}
	return c09Params{
		fams: []family{
			{Name: "error", Space: gen.NewSpace(2, 2, 2, 2, true)},
			{Name: "error-l3", Space: gen.NewSpace(2, 2, 2, 3, true), Limit: 600000},
			{Name: "error3", Space: gen.NewSpace(3, 2, 2, 2, true), Limit: 600000},
			{Name: "error-sugar", Space: gen.NewSpace(2, 2, 2, 2, true), Sugar: true, Limit: 60000},
			{Name: "error-names-builtin", Space: gen.NewSpace(2, 2, 2, 2, true), Names: 3},
			{Name: "error-pad9", Space: gen.NewSpace(2, 2, 2, 2, true), Pad: 9},
			{Name: "error3-pad9", Space: gen.NewSpace(3, 2, 2, 2, true), Limit: 300000, Pad: 9},
		},
		L: 6, Lpump: 4, Ks: []int{2, 8, 50}, Hooked: true,
	}
}

// yield flattens the tree built by the generic action into reference symbols
// and the input indices of its token leaves.
func yieldOf(c *ctypes.Carrier, x any, syms *[]int, idx *[]int) {
	switch v := x.(type) {
	case ctypes.Token:
		*syms = append(*syms, px.RefSym(v.Type))
		*idx = append(*idx, v.Idx)
	case *ctypes.Node:
		for _, k := range v.Kids {
			yieldOf(c, k, syms, idx)
		}
	default:
		if _, _, ok := c.AsError(x); ok {
			*syms = append(*syms, cfgref.ErrSym)
		} else {
			*syms = append(*syms, 251) // unknown leaf: never a sentence
		}
	}
}

type c09Ctx struct {
	b       *px.Built
	r       *px.Runner
	cfg     *cfgref.CFG
	g       *gen.Grammar
	fam     string
	idx     int64
	L       int
	st      *mc.Stats
	out     []mc.Violation
	reduced bool
}

func (x *c09Ctx) report(prop, kind string, w []int, detail, known string) {
	if len(x.out) >= 4 {
		return
	}
	x.out = append(x.out, mc.Violation{
		Property: prop, Check: "C09", Kind: kind, Size: len(x.g.String())*1000 + len(w),
		Case:   mkCase(x.fam, x.idx, x.g, x.L, w),
		Detail: fmt.Sprintf("grammar {%s} input %s: %s", x.g.String(), inputText(x.g, w), detail),
		Known:  known,
	})
}

// check runs one input and evaluates the C09 oracle (and C01's equivalence).
func (x *c09Ctx) check(w []int) {
	x.st.Evaluations++
	// At the first delivery of an Error, record which Errors are still on the
	// stack below the production being reduced (shifted, awaiting delivery by
	// an enclosing production).
	var pending []int
	sawFirst := false
	x.r.ActHook = func(p ctypes.Parser, n *ctypes.Node) {
		if sawFirst || !x.b.ProdHasErr[n.Prod] {
			return
		}
		sawFirst = true
		all := p.StackErrIdx()
		for _, i := range all[:len(all)-len(n.Kids)] {
			if i >= 0 {
				pending = append(pending, i)
			}
		}
	}
	o := x.r.Run(w)
	x.r.ActHook = nil
	switch {
	case o.Panic != "":
		x.report("C09", "parser-panic", w, "parse() panicked: "+o.Panic, "")
		return
	case o.Hang != "":
		x.report("C09", "parser-hang-"+o.HangKind, w, "parse() does not terminate: "+o.Hang, "")
		return
	case o.Incon:
		x.st.Inconcl++
		return
	}
	// reference reading of the input
	ref := make([]int, len(w))
	for i, t := range w {
		if t == loxERROR {
			ref[i] = refLexErr
		} else {
			ref[i] = px.RefSym(t)
		}
	}
	viable, member := x.cfg.ViableLen(ref)
	// Under "@error is unmatchable" a sentence contains no @error; Earley over
	// the grammar with @error as a terminal agrees on inputs without that
	// terminal, and the input never contains it (lexer errors are refLexErr).
	firstBad := viable // index of the first token making the input non-viable; len(w) = EOF
	var firstErr *ctypes.Node
	for _, e := range o.Events {
		if e.Kind == ctypes.EvReduce && x.b.ProdHasErr[e.Prod] {
			firstErr = e.N
			break
		}
	}
	clean := o.OK && firstErr == nil
	if member && !clean {
		x.report("C01", "rejects-sentence", w, fmt.Sprintf("input is a sentence but parse() returned %v and an @error production ran: %v", o.OK, firstErr != nil), "")
	}
	if !member {
		if clean {
			x.report("C09", "silent-accept", w, "input is not a sentence, yet parse() returned true without delivering any Error to an @error action", "")
		}
		if firstErr != nil {
			var tokIdx = -1
			found := false
			for _, k := range firstErr.Kids {
				if tok, _, ok := x.r.C.AsError(k); ok {
					tokIdx = tok.Idx
					found = true
					break
				}
			}
			if !found {
				x.report("C09", "error-missing", w, "an @error production was reduced but no Error value was on the stack for its @error term", "")
			} else if tokIdx != firstBad && containsInt(pending, firstBad) && tokIdx > firstBad {
				// Bottom-up order: the Error for the first bad token is on the
				// stack, to be delivered by a production that encloses this one
				// (right-nested error productions). Nothing is lost or misblamed.
				x.st.Add("first_error_pending_in_enclosing_production", 1)
			} else if tokIdx != firstBad && !x.reduced {
				// The correct-prefix property of LR parsing presupposes a reduced
				// grammar; with a non-terminal that derives no terminal string the
				// parser cannot know that a prefix is already dead.
				x.st.Add("blame_not_checked_unproductive_grammar", 1)
			} else if tokIdx != firstBad {
				x.report("C09", "wrong-error-token", w, fmt.Sprintf("first Error delivered carries token #%d, but the input stops being a prefix of any sentence at token #%d (EOF = #%d)", tokIdx, firstBad, len(w)), "")
			}
		}
	}
	if o.OK {
		var root *ctypes.Node
		for _, e := range o.Events {
			if e.Kind == ctypes.EvReduce {
				root = e.N
			}
		}
		if root == nil {
			x.report("C09", "accept-without-reduce", w, "parse() returned true without any reduction", "")
		} else {
			var syms, idx []int
			yieldOf(x.r.C, root, &syms, &idx)
			if !x.cfg.Member(syms) {
				x.report("C09", "consumed-not-sentence", w, fmt.Sprintf("parse() returned true but the consumed symbols %v (0 = @error) are not a sentence", syms), "")
			}
			last := -1
			for _, i := range idx {
				if i <= last || i >= len(w) {
					x.report("C09", "consumed-not-subsequence", w, fmt.Sprintf("token leaves %v are not a subsequence of the input", idx), "")
					break
				}
				last = i
			}
		}
	}
	if o.Reads > 2*len(w)+4 {
		x.report("C09", "reads-after-eof", w, fmt.Sprintf("ReadToken was called %d times for %d tokens", o.Reads, len(w)), "")
	}
}

func c09Explore(b *px.Built, r *px.Runner, fam string, idx int64, prm c09Params, st *mc.Stats, only []int) []mc.Violation {
	g := b.G
	x := &c09Ctx{b: b, r: r, cfg: cfgref.FromGrammar(g), g: g, fam: fam, idx: idx, L: prm.L, st: st}
	x.reduced = x.cfg.Reduced()
	b.Install(r.C)
	r.NStates = len(b.Actions)
	r.ResetCounts()
	// Third pass: what an action returns is the user's business. With every
	// (every other) generic action returning an Error value or a Token value of
	// its own making, the verdict, the reductions and the Errors delivered to
	// @error terms must be what they are with any other result.
	sig := func(o *px.Outcome) string {
		var sb strings.Builder
		fmt.Fprintf(&sb, "ok=%v", o.OK)
		for _, e := range o.Events {
			if e.Kind != ctypes.EvReduce {
				continue
			}
			fmt.Fprintf(&sb, " r%d", e.Prod)
			for i, k := range e.N.Kids {
				if int(e.Prod) < len(b.ProdErrAt) && i < len(b.ProdErrAt[e.Prod]) && b.ProdErrAt[e.Prod][i] {
					if tok, _, ok := r.C.AsError(k); ok {
						fmt.Fprintf(&sb, "(err#%d)", tok.Idx)
					} else {
						fmt.Fprintf(&sb, "(%T)", k)
					}
				}
			}
		}
		return sb.String()
	}
	kindName := map[int]string{2: "a Token value", 3: "an Error value"}
	typedCheck := func(w []int) {
		if len(x.out) > 0 {
			return
		}
		ref := r.Run(w)
		if ref.Panic != "" || ref.Hang != "" || ref.Incon {
			return
		}
		for _, kind := range []int{3, 2} {
			for mode, sel := range []func(p int32) bool{func(int32) bool { return true }, func(p int32) bool { return p%2 == 1 }} {
				kind, sel := kind, sel
				r.ResKind = func(p int32) int {
					if sel(p) {
						return kind
					}
					return 0
				}
				o := r.Run(w)
				r.ResKind = nil
				st.Evaluations++
				st.Add("runs_with_typed_results", 1)
				switch {
				case o.Panic != "":
					x.report("C09", "parser-panic-with-typed-results", w, fmt.Sprintf("with actions returning %s (mode %d): %s", kindName[kind], mode, o.Panic), "")
				case o.Hang != "":
					x.report("C09", "parser-hang-with-typed-results", w, fmt.Sprintf("with actions returning %s (mode %d): %s", kindName[kind], mode, o.Hang), "")
				case o.Incon:
					st.Inconcl++
				default:
					if a, b := sig(ref), sig(o); a != b {
						x.report("C09", "result-type-dependent-recovery", w, fmt.Sprintf("with actions returning %s (mode %d) the parse is {%s}; with other results it is {%s}", kindName[kind], mode, b, a), "")
					}
				}
			}
		}
	}
	// Fourth pass: parser values are independent. The same input again, with the
	// action of its k-th reduction parsing the same (possibly erroneous) input
	// with a parser value of its own before it returns, for every k: the outer
	// parse and the inner parse are each what the parse is alone.
	nestedCheck := func(w []int) {
		if len(x.out) > 0 {
			return
		}
		ref := r.Run(w)
		if ref.Panic != "" || ref.Hang != "" || ref.Incon {
			return
		}
		nred := 0
		for _, e := range ref.Events {
			if e.Kind == ctypes.EvReduce {
				nred++
			}
		}
		want := sig(ref)
		for k := 0; k < nred && k < 8; k++ {
			o, ran, innerOK, innerEvs := r.RunNested(w, k, w)
			st.Evaluations++
			st.Add("nested_parses", 1)
			why := ""
			switch {
			case o.Panic != "":
				why = "panic: " + firstLine(o.Panic)
			case o.Hang != "" || o.Incon:
				why = "the outer parse does not terminate: " + o.Hang
			case !ran:
				why = fmt.Sprintf("the outer parse made fewer than %d reductions this time", k+1)
			case sig(o) != want:
				why = fmt.Sprintf("the outer parse is {%s}, alone it is {%s}", sig(o), want)
			default:
				if in := sig(&px.Outcome{OK: innerOK, Events: innerEvs}); in != want {
					why = fmt.Sprintf("the inner parse is {%s}, alone it is {%s}", in, want)
				}
			}
			if why != "" {
				x.report("C09", "nested-parser-interferes", w, fmt.Sprintf("with the action of reduction #%d parsing the same input with a second parser value: %s", k, why), "")
				return
			}
		}
	}
	if only != nil {
		x.check(only)
		typedCheck(only)
		nestedCheck(only)
		return x.out
	}
	alphabet := []int{loxERROR}
	for i := range g.Toks {
		alphabet = append(alphabet, px.LoxTok(i))
	}
	forStrings(alphabet, prm.L, x.check)
	// pumped variants u v^k x of every short string
	forStrings(alphabet, prm.Lpump, func(w []int) {
		for i := 0; i < len(w); i++ {
			for j := i + 1; j <= len(w); j++ {
				for _, k := range prm.Ks {
					var p []int
					p = append(p, w[:i]...)
					for n := 0; n < k; n++ {
						p = append(p, w[i:j]...)
					}
					p = append(p, w[j:]...)
					if len(p) > prm.L {
						x.check(p)
					}
				}
			}
		}
	})
	// Second pass: the user's @error actions call recoverLookahead the way the
	// documentation suggests (re-injecting the token that ends the error
	// production). Only termination and crash freedom are checked here: the
	// consumed-symbols oracle does not apply when a token is consumed twice.
	if prm.Hooked {
		hook := func(p ctypes.Parser, n *ctypes.Node) {
			if !b.ProdHasErr[n.Prod] || len(n.Kids) < 2 {
				return
			}
			if tok, ok := n.Kids[len(n.Kids)-1].(ctypes.Token); ok && p.Qla() == -1 {
				p.RecoverLookahead(tok.Type, tok)
			}
		}
		forStrings(alphabet, prm.L-2, func(w []int) {
			r.ActHook = hook
			o := r.Run(w)
			r.ActHook = nil
			st.Evaluations++
			st.Add("runs_with_recoverLookahead", 1)
			switch {
			case o.Panic != "":
				x.report("C09", "parser-panic-with-recoverLookahead", w, "with @error actions calling recoverLookahead(last token): "+o.Panic, "")
			case o.Hang != "":
				// Re-injecting a token in every error action can loop by the user's own doing
				// (the same token is rejected, recovered and re-injected again); counted, not reported.
				st.Add("user_induced_loops_with_recoverLookahead", 1)
			case o.Incon:
				st.Inconcl++
			}
		})
	}
	forStrings(alphabet, prm.L-1, typedCheck)
	forStrings(alphabet, prm.L-2, nestedCheck)
	st.States += int64(len(r.Configs))
	st.Transitions += r.Steps
	return x.out
}

func c09Worker(c *mc.Ctx) {
	prm := c09Families(c.Quick())
	ws := pipe.NewWorkspace("c09")
	defer ws.Close()
	r := px.NewRunner(px.NB)
	for _, fam := range prm.fams {
		fam := fam
		fam.each(c, func(idx int64, g *gen.Grammar) {
			if !g.HasError() {
				return // C01's domain
			}
			c.Stats.Add("grammars_generated", 1)
			b := px.Build(ws, g, px.NB)
			switch b.Status {
			case px.Conflicts:
				c.Stats.Add("grammars_with_conflicts", 1)
				return
			case px.Rejected:
				c.Stats.Add("grammars_rejected_otherwise", 1)
				c.Stats.Note("rejected: " + firstLine(b.Res.Diag) + " e.g. {" + g.String() + "}")
				return
			case px.Panicked:
				c.Stats.Violate(mc.Violation{Property: "C12", Check: "C09", Kind: "generator-panic", Size: len(g.String()),
					Case: mkCase(fam.Name, idx, g, prm.L, nil), Detail: "generator panicked on {" + g.String() + "}: " + firstLine(b.Res.Panic)})
				return
			case px.Broken:
				c.Stats.HarnessError("grammar {%s}: %s", g.String(), b.Problem)
				return
			}
			c.Stats.Add("grammars_accepted", 1)
			c.Stats.Nontrivial++
			c.Stats.Validated++
			if len(c.Stats.Samples) < 3 && len(g.Rules) > 1 {
				c.Stats.Sample(map[string]any{"family": fam.Name, "grammar": g.String(), "strings_up_to": prm.L, "alphabet": "tokens + lexer ERROR", "pumps": prm.Ks})
			}
			for _, v := range c09Explore(b, r, fam.Name, idx, prm, &c.Stats, nil) {
				c.Stats.Violate(v)
			}
		})
	}
}

func c09Replay(raw json.RawMessage) *mc.Violation {
	var gc grammarCase
	if err := json.Unmarshal(raw, &gc); err != nil {
		return &mc.Violation{Property: "C09", Kind: "bad-replay", Detail: err.Error()}
	}
	ws := pipe.NewWorkspace("c09r")
	defer ws.Close()
	b := px.Build(ws, gc.Grammar, px.NB)
	if b.Status != px.Accepted {
		return nil
	}
	r := px.NewRunner(px.NB)
	var st mc.Stats
	var w []int
	for _, n := range gc.Input {
		w = append(w, tokIndex(gc.Grammar, n))
	}
	if w == nil {
		w = []int{}
	}
	vs := c09Explore(b, r, gc.Family, gc.Index, c09Params{L: gc.L}, &st, w)
	if len(vs) == 0 {
		return nil
	}
	return &vs[0]
}

func tokIndex(g *gen.Grammar, name string) int {
	switch name {
	case "EOF":
		return 0
	case "ERROR":
		return 1
	}
	for i, t := range g.Toks {
		if t == name {
			return i + 2 + g.PadToks
		}
	}
	return -1
}

func init() {
	mc.Register(&mc.Check{
		ID:    "C09",
		Level: "model_checking",
		Rule: "grammars: every member of G(n,t,p,l) with @error usable as a term in any position (counter-enumerated, canonical, conflict-free ones kept) plus one-sugar variants; " +
			"inputs: every string up to the length bound over the grammar's tokens plus the lexer ERROR token, and pumped variants u v^k x of every short string; " +
			"each run on the real runtime with exact non-termination criteria (repeated configuration, pumping, _recover inner-loop bound); oracle: Earley prefix viability / membership over the grammar with @error as a terminal; " +
			"non-trivial = accepted grammar containing @error; states = distinct parser configurations hashed per grammar",
		Assume: []string{
			"the generic action never calls recoverLookahead (the default user behaviour)",
			"reference: internal/cfgref Earley recogniser with the valid-prefix property (unproductive symbols removed)",
		},
		Worker: c09Worker,
		Replay: c09Replay,
	})
}

func containsInt(xs []int, v int) bool {
	for _, x := range xs {
		if x == v {
			return true
		}
	}
	return false
}
