package main

import (
	"encoding/json"
	"fmt"
	"math"
	"sort"
	"strings"

	"github.com/dcaiafa/lox/internal/parsergen/lr1"
	"github.com/dcaiafa/lox/verif/internal/gen"
	"github.com/dcaiafa/lox/verif/internal/lalrref"
	"github.com/dcaiafa/lox/verif/internal/mc"
	"github.com/dcaiafa/lox/verif/internal/pipe"
	"github.com/dcaiafa/lox/verif/internal/px"
)

// ---------------------------------------------------------------------------
// Mapping between lox's grammar object and the reference.

type loxMap struct {
	termKey  map[*lr1.Terminal]int // lox terminal -> reference action key
	prodOf   map[int]int           // lox production index -> reference production index
	ruleSym  map[string]int        // rule name -> reference symbol
	problems []string
}

func prodKeyLox(p *lr1.Prod) string {
	var rhs []string
	for _, t := range p.Terms {
		n := t.TermName()
		if _, isTerminal := t.(*lr1.Terminal); isTerminal && n == "ERROR" { // a rule may be called ERROR too
			n = "@error"
		}
		rhs = append(rhs, n)
	}
	return p.Rule.Name + " = " + strings.Join(rhs, " ")
}

func buildMap(ref *lalrref.Table, g *lr1.Grammar) *loxMap {
	m := &loxMap{termKey: map[*lr1.Terminal]int{}, prodOf: map[int]int{}, ruleSym: map[string]int{}}
	byName := map[string]int{}
	for s, n := range ref.C.Names {
		if _, dup := byName[n]; !dup {
			byName[n] = s
		}
	}
	for _, t := range g.Terminals {
		switch t.Name {
		case "EOF":
			m.termKey[t] = lalrref.EOFKey
		case "ERROR":
			m.termKey[t] = 0
		default:
			s, ok := byName[t.Name]
			if !ok && strings.HasPrefix(t.Name, "PAD") {
				// gen.Grammar.PadToks: unused tokens the reference never hears of;
				// an action on one of them would not match any reference key
				m.termKey[t] = -1000 - t.Index
				continue
			}
			if !ok || s >= ref.C.NT {
				m.problems = append(m.problems, "terminal "+t.Name+" unknown to the reference")
				continue
			}
			m.termKey[t] = s
		}
	}
	for _, r := range g.Rules {
		if s, ok := byName[r.Name]; ok {
			m.ruleSym[r.Name] = s
		} else if r.Name != lr1.SPrime {
			m.problems = append(m.problems, "rule "+r.Name+" unknown to the reference")
		}
	}
	// k-th production with a given key on one side is the k-th on the other.
	refByKey := map[string][]int{}
	for i := range ref.Prods {
		k := ref.ProdKey(i)
		refByKey[k] = append(refByKey[k], i)
	}
	seen := map[string]int{}
	for _, p := range g.Prods {
		k := prodKeyLox(p)
		n := seen[k]
		seen[k]++
		if n < len(refByKey[k]) {
			m.prodOf[p.Index] = refByKey[k][n]
		} else {
			m.problems = append(m.problems, "production {"+k+"} unknown to the reference")
		}
	}
	if len(g.Prods) != len(ref.Prods) {
		m.problems = append(m.problems, fmt.Sprintf("lox grammar has %d productions, reference desugaring %d", len(g.Prods), len(ref.Prods)))
	}
	return m
}

// mismatch describes the first difference found between automata.
type mismatch struct {
	kind   string
	detail string
	d2     bool // explained by the equal-level @right defect model
}

// compareObject walks lox's ParserTable and the reference in lock step from
// the start states along equal symbols.
func compareObject(ref *lalrref.Table, t *lr1.ParserTable, m *loxMap) []mismatch {
	var out []mismatch
	if len(m.problems) > 0 {
		return []mismatch{{kind: "grammar-shape", detail: strings.Join(m.problems, "; ")}}
	}
	bij := map[int]int{0: 0} // lox state index -> ref state
	inv := map[int]int{0: 0}
	queue := []int{0}
	pair := func(ls, rs int, via string) bool {
		if old, ok := bij[ls]; ok {
			if old != rs {
				out = append(out, mismatch{kind: "not-isomorphic", detail: fmt.Sprintf("lox state I%d corresponds to reference states %d and %d (via %s)", ls, old, rs, via)})
				return false
			}
			return true
		}
		if old, ok := inv[rs]; ok && old != ls {
			out = append(out, mismatch{kind: "not-isomorphic", detail: fmt.Sprintf("reference state %d corresponds to lox states I%d and I%d (via %s)", rs, old, ls, via)})
			return false
		}
		bij[ls] = rs
		inv[rs] = ls
		queue = append(queue, ls)
		return true
	}
	for len(queue) > 0 && len(out) < 4 {
		ls := queue[0]
		queue = queue[1:]
		rs := bij[ls]
		lst := t.States[ls]
		rst := ref.States[rs]
		// transitions
		ltr := t.Transitions(lst)
		seenSym := map[int]bool{}
		for _, in := range ltr.Inputs() {
			var sym int
			switch x := in.(type) {
			case *lr1.Terminal:
				sym = m.termKey[x]
			case *lr1.Rule:
				sym = m.ruleSym[x.Name]
			}
			seenSym[sym] = true
			to, ok := rst.Trans[sym]
			if !ok {
				out = append(out, mismatch{kind: "extra-transition", detail: fmt.Sprintf("lox state I%d has a transition on %s, reference state %d has none", ls, in.TermName(), rs)})
				continue
			}
			pair(ltr.Get(in).Index, to, in.TermName())
		}
		for _, sym := range sortedKeys(rst.Trans) {
			if !seenSym[sym] {
				out = append(out, mismatch{kind: "missing-transition", detail: fmt.Sprintf("reference state %d has a transition on %s, lox state I%d has none", rs, ref.C.Names[sym], ls)})
			}
		}
		// actions
		lam := t.Actions(lst)
		seenTerm := map[int]bool{}
		for _, term := range lam.Terminals() {
			key := m.termKey[term]
			seenTerm[key] = true
			las := lam.Get(term).Elements()
			ras := rst.Actions[key]
			if len(ras) == 0 {
				out = append(out, mismatch{kind: "extra-action", detail: fmt.Sprintf("lox state I%d acts on %s (%s), reference state %d has no action there (lookahead not in the LALR(1) set)", ls, term.Name, las[0].ToString(t.Grammar), rs)})
				continue
			}
			if len(las) != 1 || len(ras) != 1 {
				// unresolved on either side; verdict comparison covers it
				continue
			}
			la, ra := las[0], ras[0]
			ok := false
			switch la.Type {
			case lr1.ActionShift:
				ok = ra.Kind == lalrref.Shift
				if ok {
					pair(la.ShiftState.Index, ra.To, term.Name)
				}
			case lr1.ActionReduce:
				ok = ra.Kind == lalrref.Reduce && m.prodOf[la.Prods[0].Index] == ra.Prod
			case lr1.ActionAccept:
				ok = ra.Kind == lalrref.Accept
			}
			if !ok {
				mm := mismatch{kind: "wrong-action", detail: fmt.Sprintf("state I%d (reference %d) on %s: lox %s, reference %s [%s]", ls, rs, term.Name, describeLox(t, la), describeRef(ref, ra), rst.Settled[key])}
				if la.Type == lr1.ActionReduce && ra.Kind == lalrref.Shift && rst.Settled[key] == "equal level @right: shift" {
					rp := ref.Prods[m.prodOf[la.Prods[0].Index]]
					if rp.Assoc == gen.Right && rp.Prec > 0 {
						mm.d2 = true
					}
				}
				out = append(out, mm)
			}
		}
		for _, key := range sortedKeys(rst.Actions) {
			if !seenTerm[key] {
				out = append(out, mismatch{kind: "missing-action", detail: fmt.Sprintf("reference state %d acts on %s (%s), lox state I%d has no action there (lookahead missing)", rs, ref.TermName(key), describeRef(ref, rst.Actions[key][0]), ls)})
			}
		}
	}
	if len(out) == 0 {
		if len(bij) != len(t.States) {
			out = append(out, mismatch{kind: "unreachable-states", detail: fmt.Sprintf("lox table has %d states, %d reachable from the start state", len(t.States), len(bij))})
		}
		if len(bij) != len(ref.States) {
			out = append(out, mismatch{kind: "state-count", detail: fmt.Sprintf("reference has %d states, bijection covers %d", len(ref.States), len(bij))})
		}
	}
	return out
}

func describeLox(t *lr1.ParserTable, a *lr1.Action) string {
	if a.Type == lr1.ActionReduce {
		return "reduce {" + prodKeyLox(a.Prods[0]) + "}"
	}
	return a.ToString(t.Grammar)
}

func describeRef(ref *lalrref.Table, a lalrref.Action) string {
	if a.Kind == lalrref.Reduce {
		return "reduce {" + ref.ProdString(a.Prod) + "}"
	}
	if a.Kind == lalrref.Shift {
		return "shift"
	}
	return "accept"
}

// compareArrays decodes the emitted _actions/_goto/_rules/_termCounts and
// walks them against the reference the same way.
func compareArrays(ref *lalrref.Table, b *px.Built, m *loxMap) []mismatch {
	var out []mismatch
	bad := func(k, f string, a ...any) {
		if len(out) < 4 {
			out = append(out, mismatch{kind: k, detail: fmt.Sprintf(f, a...)})
		}
	}
	arows, err := px.DecodeRows(b.Actions)
	if err != nil {
		return []mismatch{{kind: "table-format", detail: "_actions: " + err.Error()}}
	}
	grows, err := px.DecodeRows(b.Goto)
	if err != nil {
		return []mismatch{{kind: "table-format", detail: "_goto: " + err.Error()}}
	}
	if len(arows) != len(ref.States) || len(grows) != len(ref.States) {
		bad("table-format", "_actions has %d rows, _goto %d, reference automaton %d states", len(arows), len(grows), len(ref.States))
		return out
	}
	g := b.Res.V.Grammar
	termByIdx := map[int]*lr1.Terminal{}
	for _, t := range g.Terminals {
		termByIdx[t.Index] = t
	}
	// _rules / _termCounts
	for i, p := range g.Prods {
		rp, ok := m.prodOf[i]
		if !ok {
			continue
		}
		if int(b.TermCounts[i]) != len(ref.Prods[rp].RHS) {
			bad("termcounts", "_termCounts[%d]=%d, production {%s} has %d terms", i, b.TermCounts[i], ref.ProdString(rp), len(ref.Prods[rp].RHS))
		}
		if int(b.Rules[i]) != p.Rule.Index || g.Rules[b.Rules[i]].Name != ref.Prods[rp].Rule {
			bad("rules", "_rules[%d]=%d, production {%s}", i, b.Rules[i], ref.ProdString(rp))
		}
	}
	bij := map[int]int{0: 0}
	inv := map[int]int{0: 0}
	queue := []int{0}
	pair := func(ls, rs int) {
		if ls < 0 || ls >= len(arows) {
			bad("table-format", "target state %d out of range", ls)
			return
		}
		if old, ok := bij[ls]; ok {
			if old != rs {
				bad("not-isomorphic", "emitted state %d corresponds to reference states %d and %d", ls, old, rs)
			}
			return
		}
		if old, ok := inv[rs]; ok && old != ls {
			bad("not-isomorphic", "reference state %d corresponds to emitted states %d and %d", rs, old, ls)
			return
		}
		bij[ls] = rs
		inv[rs] = ls
		queue = append(queue, ls)
	}
	for len(queue) > 0 && len(out) < 4 {
		ls := queue[0]
		queue = queue[1:]
		rs := bij[ls]
		rst := ref.States[rs]
		row := arows[ls]
		if len(row)%2 != 0 {
			bad("table-format", "_actions row of state %d has odd length %d", ls, len(row))
			continue
		}
		seen := map[int]bool{}
		for i := 0; i < len(row); i += 2 {
			term := termByIdx[int(row[i])]
			if term == nil {
				bad("table-format", "_actions row of state %d keyed by unknown terminal %d", ls, row[i])
				continue
			}
			key := m.termKey[term]
			if seen[key] {
				bad("table-format", "_actions row of state %d has terminal %s twice", ls, term.Name)
			}
			seen[key] = true
			ras := rst.Actions[key]
			if len(ras) != 1 {
				bad("extra-action", "emitted state %d acts on %s, reference state %d has %d actions there", ls, term.Name, rs, len(ras))
				continue
			}
			ra := ras[0]
			v := row[i+1]
			switch {
			case v == math.MaxInt32:
				if ra.Kind != lalrref.Accept {
					bad("wrong-action", "emitted state %d on %s: accept, reference %s", ls, term.Name, describeRef(ref, ra))
				}
			case v >= 0:
				if ra.Kind != lalrref.Shift {
					bad("wrong-action", "emitted state %d on %s: shift %d, reference %s", ls, term.Name, v, describeRef(ref, ra))
				} else {
					pair(int(v), ra.To)
				}
			default:
				pi := int(-v)
				if ra.Kind != lalrref.Reduce || m.prodOf[pi] != ra.Prod {
					mm := mismatch{kind: "wrong-action", detail: fmt.Sprintf("emitted state %d on %s: reduce production %d, reference %s [%s]", ls, term.Name, pi, describeRef(ref, ra), rst.Settled[key])}
					if ra.Kind == lalrref.Shift && rst.Settled[key] == "equal level @right: shift" {
						if rp, ok := m.prodOf[pi]; ok && ref.Prods[rp].Assoc == gen.Right && ref.Prods[rp].Prec > 0 {
							mm.d2 = true
						}
					}
					if len(out) < 4 {
						out = append(out, mm)
					}
				}
			}
		}
		for _, key := range sortedKeys(rst.Actions) {
			if !seen[key] {
				bad("missing-action", "reference state %d acts on %s, emitted state %d has no entry", rs, ref.TermName(key), ls)
			}
		}
		grow := grows[ls]
		if len(grow)%2 != 0 {
			bad("table-format", "_goto row of state %d has odd length", ls)
			continue
		}
		seenR := map[int]bool{}
		for i := 0; i < len(grow); i += 2 {
			ri := int(grow[i])
			if ri < 0 || ri >= len(g.Rules) {
				bad("table-format", "_goto row of state %d keyed by unknown rule %d", ls, ri)
				continue
			}
			sym := m.ruleSym[g.Rules[ri].Name]
			seenR[sym] = true
			to, ok := rst.Trans[sym]
			if !ok {
				bad("extra-goto", "emitted state %d has goto on %s, reference state %d has none", ls, g.Rules[ri].Name, rs)
				continue
			}
			pair(int(grow[i+1]), to)
		}
		for _, sym := range sortedKeys(rst.Trans) {
			if sym >= ref.C.NT && !seenR[sym] {
				bad("missing-goto", "reference state %d has goto on %s, emitted state %d has none", rs, ref.C.Names[sym], ls)
			}
		}
	}
	if len(out) == 0 && len(bij) != len(ref.States) {
		// With the D2 defect some shift edges are missing from _actions; states
		// stay reachable through other edges in every grammar seen so far, so
		// an incomplete bijection is reported.
		bad("state-count", "reference has %d states, emitted tables reach %d from state 0", len(ref.States), len(bij))
	}
	return out
}

// ---------------------------------------------------------------------------

type c04Fam struct {
	name string
	size int64
	get  func(i int64) *gen.Grammar
	str  string
	sug  bool
}

func c04Families(quick bool) []c04Fam {
	sp := func(name string, s *gen.Space, limit int64, sugar bool) c04Fam {
		n := s.Size()
		if limit > 0 && limit < n {
			n = limit
		}
		return c04Fam{name: name, size: n, get: s.Get, str: fmt.Sprintf("%s (first %d of %d raw)", s, n, s.Size()), sug: sugar}
	}
	ex := func(name string, s *gen.ExprSpace, limit int64) c04Fam {
		n := s.Size()
		if limit > 0 && limit < n {
			n = limit
		}
		return c04Fam{name: name, size: n, get: s.Get, str: fmt.Sprintf("%s (first %d of %d raw)", s, n, s.Size())}
	}
	// the same spaces with rule names that sort before the token names
	named := func(f c04Fam) c04Fam {
		get := f.get
		f.name += "-names"
		f.str += ", rules named Ea, Eb, .."
		f.get = func(i int64) *gen.Grammar {
			g := get(i)
			if g != nil {
				g.RenameRules(1)
			}
			return g
		}
		return f
	}
	// the same spaces with the rules named like the built-in terminals (ERROR, EOF)
	builtin := func(f c04Fam) c04Fam {
		get := f.get
		f.name += "-names-builtin"
		f.str += ", rules named ERROR, EOF, Ec, .."
		f.get = func(i int64) *gen.Grammar {
			g := get(i)
			if g != nil {
				g.RenameRules(3)
			}
			return g
		}
		return f
	}
	// the same spaces with every @empty alternative moved into a rule of its own
	indirect := func(f c04Fam) c04Fam {
		get := f.get
		f.name += "-indirect"
		f.str += ", @empty alternatives replaced by a reference to an empty rule"
		f.get = func(i int64) *gen.Grammar {
			g := get(i)
			if g != nil {
				g = g.IndirectEmpty()
			}
			return g
		}
		return f
	}
	// the same spaces with unused tokens declared before the grammar's own: the
	// terminals it uses are numbered beyond 64 (and beyond 256)
	padded := func(f c04Fam, pad int) c04Fam {
		get := f.get
		f.name += fmt.Sprintf("-pad%d", pad)
		f.str += fmt.Sprintf(", %d unused tokens declared first", pad)
		f.get = func(i int64) *gen.Grammar {
			g := get(i)
			if g != nil {
				g.PadToks = pad
			}
			return g
		}
		return f
	}
	if quick {
		return []c04Fam{
			padded(ex("prec", gen.NewExprSpace(2, 1), 6000), 70),
			padded(sp("plain", gen.NewSpace(2, 2, 2, 2, false), 4000, false), 62),
			builtin(sp("error", gen.NewSpace(2, 2, 2, 2, true), 30000, false)),
			indirect(sp("plain", gen.NewSpace(2, 2, 2, 2, false), 0, false)),
			indirect(sp("plain3", gen.NewSpace(3, 2, 2, 2, false), 200000, false)),
			named(sp("plain", gen.NewSpace(2, 2, 2, 2, false), 0, false)),
			named(sp("plain-l3", gen.NewSpace(2, 2, 2, 3, false), 150000, false)),
			named(ex("prec", gen.NewExprSpace(2, 1), 0)),
			sp("plain", gen.NewSpace(2, 2, 2, 2, false), 0, false),
			sp("plain-l3", gen.NewSpace(2, 2, 2, 3, false), 600000, false),
			sp("plain3", gen.NewSpace(3, 2, 2, 2, false), 600000, false),
			sp("sugar", gen.NewSpace(2, 2, 2, 2, false), 8000, true),
			sp("error", gen.NewSpace(2, 2, 2, 2, true), 100000, false),
			ex("prec", gen.NewExprSpace(2, 1), 0),
			ex("prec3", gen.NewExprSpace(3, 1), 300000),
		}
	}
	return []c04Fam{
		padded(ex("prec", gen.NewExprSpace(2, 1), 0), 70),
		padded(ex("prec", gen.NewExprSpace(2, 1), 20000), 300),
		padded(sp("plain", gen.NewSpace(2, 2, 2, 2, false), 0, false), 62),
		builtin(sp("error", gen.NewSpace(2, 2, 2, 2, true), 0, false)),
		builtin(sp("plain", gen.NewSpace(2, 2, 2, 2, false), 0, false)),
		indirect(sp("plain", gen.NewSpace(2, 2, 2, 2, false), 0, false)),
		indirect(sp("plain3", gen.NewSpace(3, 2, 2, 2, false), 2000000, false)),
		named(sp("plain", gen.NewSpace(2, 2, 2, 2, false), 0, false)),
		named(sp("plain-t3", gen.NewSpace(2, 3, 2, 2, false), 0, false)),
		named(ex("prec", gen.NewExprSpace(2, 1), 0)),
		sp("plain", gen.NewSpace(2, 2, 2, 2, false), 0, false),
		sp("plain-l3", gen.NewSpace(2, 2, 2, 3, false), 6000000, false),
		sp("plain3", gen.NewSpace(3, 2, 2, 2, false), 6000000, false),
		sp("plain-t3", gen.NewSpace(2, 3, 2, 2, false), 0, false),
		sp("plain-p3", gen.NewSpace(2, 2, 3, 2, false), 0, false),
		sp("sugar", gen.NewSpace(2, 2, 2, 2, false), 0, true),
		sp("error", gen.NewSpace(2, 2, 2, 2, true), 0, false),
		ex("prec", gen.NewExprSpace(2, 1), 0),
		ex("prec3", gen.NewExprSpace(3, 2), 0),
	}
}

type c04Case struct {
	Family  string       `json:"family"`
	Grammar *gen.Grammar `json:"grammar"`
	Text    string       `json:"lox"`
}

// c04One checks one grammar. full = also run the whole pipeline and compare
// the emitted arrays.
func c04One(ws *pipe.Workspace, fam string, g *gen.Grammar, st *mc.Stats) []mc.Violation {
	var out []mc.Violation
	mk := func(kind, detail string, known string) {
		raw, _ := json.Marshal(c04Case{Family: fam, Grammar: g, Text: g.LoxText()})
		out = append(out, mc.Violation{Property: "C04", Check: "C04", Kind: kind, Size: len(g.String()), Case: raw,
			Detail: "grammar {" + g.String() + "}: " + detail, Known: known})
	}
	st.Evaluations++
	ref := lalrref.Build(g)
	res, _ := ws.RunFront(&pipe.Spec{Lox: map[string]string{"g.lox": g.LoxText()}}, false)
	if res.Panic != "" {
		out = append(out, mc.Violation{Property: "C12", Check: "C04", Kind: "generator-panic", Size: len(g.String()),
			Case: mustJSON(c04Case{Family: fam, Grammar: g, Text: g.LoxText()}), Detail: "front end panicked on {" + g.String() + "}: " + firstLine(res.Panic)})
		return out
	}
	loxConf := !res.OK && strings.Contains(res.Diag, "grammar has conflicts")
	if !res.OK && !loxConf {
		st.Add("rejected_otherwise", 1)
		st.Note("rejected: " + firstLine(res.Diag) + " e.g. {" + g.String() + "}")
		return nil
	}
	if len(ref.OutDom) > 0 {
		st.Add("outside_documented_rule", 1)
		return nil
	}
	st.States += int64(len(ref.States))
	for _, s := range ref.States {
		st.Transitions += int64(len(s.Trans))
	}
	if res.V == nil || res.V.Table == nil {
		st.HarnessError("no table object for {%s}", g.String())
		return nil
	}
	if res.V.Table.HasConflicts != loxConf {
		mk("verdict-inconsistent", fmt.Sprintf("ParserTable.HasConflicts=%v but diagnostic says conflicts=%v", res.V.Table.HasConflicts, loxConf), "")
	}
	if loxConf {
		st.Add("lox_conflict", 1)
	}
	if ref.HasConflicts() {
		st.Add("ref_conflict", 1)
	}
	m := buildMap(ref, res.V.Grammar)
	d2only := func(ms []mismatch) bool {
		if len(ms) == 0 {
			return false
		}
		for _, x := range ms {
			if !x.d2 {
				return false
			}
		}
		return true
	}
	switch {
	case loxConf && !ref.HasConflicts():
		// Is the spurious conflict explained by D2? No: D2 resolves (wrongly); it never reports.
		mk("spurious-conflict", "lox reports 'grammar has conflicts' but the reference LALR(1) automaton has no unresolved conflict", "")
		return out
	case !loxConf && ref.HasConflicts():
		mk("hidden-conflict", "lox accepted the grammar but the reference LALR(1) automaton has unresolved conflicts: "+strings.Join(head(ref.Unres, 3), "; "), "")
		return out
	case loxConf:
		return out
	}
	st.Nontrivial++
	st.Add("accepted", 1)
	ms := compareObject(ref, res.V.Table, m)
	if len(ms) > 0 {
		known := ""
		if d2only(ms) {
			known = "D2-right-assoc-reduces"
		}
		mk("table-object-"+ms[0].kind, ms[0].detail, known)
	}
	// Emitted arrays (whole pipeline).
	b := px.Build(ws, g, px.NB)
	switch b.Status {
	case px.Accepted:
		st.Validated++
		am := buildMap(ref, b.Res.V.Grammar)
		ms2 := compareArrays(ref, b, am)
		if len(ms2) > 0 {
			known := ""
			if d2only(ms2) {
				known = "D2-right-assoc-reduces"
			}
			mk("emitted-"+ms2[0].kind, ms2[0].detail, known)
		}
	case px.Panicked:
		out = append(out, mc.Violation{Property: "C12", Check: "C04", Kind: "generator-panic", Size: len(g.String()),
			Case: mustJSON(c04Case{Family: fam, Grammar: g, Text: g.LoxText()}), Detail: "generator panicked on {" + g.String() + "}: " + firstLine(b.Res.Panic)})
	case px.Broken:
		st.HarnessError("grammar {%s}: %s", g.String(), b.Problem)
	default:
		mk("pipeline-disagrees", "front end accepted the grammar but the full pipeline said "+b.Status+": "+firstLine(b.Res.Diag), "")
	}
	if len(st.Samples) < 3 && len(ref.States) > 6 {
		st.Sample(map[string]any{"family": fam, "grammar": g.String(), "reference_states": len(ref.States), "verdict": "accepted, automaton and emitted arrays match the reference"})
	}
	return out
}

func mustJSON(x any) json.RawMessage {
	b, _ := json.Marshal(x)
	return b
}

func head(xs []string, n int) []string {
	if len(xs) > n {
		return xs[:n]
	}
	return xs
}

func c04Worker(c *mc.Ctx) {
	ws := pipe.NewWorkspace("c04")
	defer ws.Close()
	for _, fam := range c04Families(c.Quick()) {
		if strings.Contains(fam.str, "first") && !strings.Contains(fam.str, fmt.Sprintf("first %d of %d raw", fam.size, fam.size)) {
			c.Stats.Cap(fam.name + ": " + fam.str)
		}
		for i := int64(0); i < fam.size; i++ {
			if !c.Mine(i) {
				continue
			}
			g := fam.get(i)
			if g == nil {
				continue
			}
			gs := []*gen.Grammar{g}
			if fam.sug {
				gs = gen.SugarVariants(g)
			}
			for _, g := range gs {
				for _, v := range c04One(ws, fam.name, g, &c.Stats) {
					c.Stats.Violate(v)
				}
			}
		}
	}
}

func c04Replay(raw json.RawMessage) *mc.Violation {
	var cs c04Case
	if err := json.Unmarshal(raw, &cs); err != nil {
		return &mc.Violation{Property: "C04", Kind: "bad-replay", Detail: err.Error()}
	}
	ws := pipe.NewWorkspace("c04r")
	defer ws.Close()
	var st mc.Stats
	vs := c04One(ws, cs.Family, cs.Grammar, &st)
	sort.SliceStable(vs, func(i, j int) bool { return vs[i].Known < vs[j].Known })
	if len(vs) == 0 {
		return nil
	}
	return &vs[0]
}

func init() {
	mc.Register(&mc.Check{
		ID:    "C04",
		Level: "exploration",
		Rule: "every grammar of the counter-enumerated spaces G(n,t,p,l) (conflicting ones included), one-sugar variants, @error variants, and the precedence family Expr (expression rules with every qualifier option on every alternative, optional second rule sharing operators); " +
			"verdict of lox compared with the reference LALR(1) construction (canonical LR(1), merge by core, documented precedence rule); accepted grammars: lock-step walk of lox's automaton object and of the decoded emitted arrays against the reference; " +
			"non-trivial = accepted grammar (automaton compared state by state); states/transitions = reference automaton states/edges summed",
		Assume: []string{
			"reference: internal/lalrref (canonical LR(1) + merge by core + documented precedence rule)",
			"grammars where the documented rule is silent (different levels among the productions wanting one shift; one level carrying both associativities) are counted and skipped",
		},
		Worker: c04Worker,
		Replay: c04Replay,
	})
}

func sortedKeys[V any](m map[int]V) []int {
	ks := make([]int, 0, len(m))
	for k := range m {
		ks = append(ks, k)
	}
	sort.Ints(ks)
	return ks
}
