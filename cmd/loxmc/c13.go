package main

import (
	"bytes"
	"crypto/sha256"
	"encoding/json"
	"fmt"
	"github.com/dcaiafa/lox/verif/internal/root"
	"os"
	"os/exec"
	"path/filepath"
	"regexp"
	"sort"
	"strings"
	"sync"
	"time"

	"github.com/dcaiafa/lox/verif/internal/mc"
	"github.com/dcaiafa/lox/verif/internal/pipe"
)

// ---------------------------------------------------------------------------
// (b) Earlier runs and working directory: BFS over directory states with the
// real binary.

type c13Config struct {
	name string
	lox  string
	user string
}

const c13UserA = `package p

type Token struct {
	Type int
}

type parser struct {
	lox
}

func (p *parser) on_s(a, b Token) int { return 1 }
`

func c13Configs() []c13Config {
	a := "@lexer\nX = 'x'\nY = 'y'\n@frag [ \\n]+ @discard\n@parser\n@start s = X Y\n"
	b := "@lexer\nW = 'w'\nX = 'x' 'x'?\nZ = [z0-9]+\nQ = 'q' @push_mode(M)\n@mode M {\n  R = 'r' @pop_mode\n}\n@parser\n@start s = X Z | W Q\n"
	return []c13Config{
		{"A", a, c13UserA},
		{"B", b, c13UserA},
		{"A+bounds", a, c13UserA + "\nfunc (p *parser) _onBounds(r any, b, e Token) {}\n"},
		// A with the two token declarations exchanged: same names, same file sizes, other numbers
		{"A-swapped", strings.Replace(a, "X = 'x'\nY = 'y'\n", "Y = 'y'\nX = 'x'\n", 1), c13UserA},
		// A split over two files, token rules in both ("\x00" separates the files a.lox and b.lox)
		{"A-two-files", "@lexer\nX = 'x'\n@parser\n@start s = X Y\n\x00@lexer\nY = 'y'\n@frag [ \\n]+ @discard\n", c13UserA},
	}
}

// grammars that lox refuses with "grammar has conflicts" after printing the report
var c13ConflictGrammars = []string{
	"@lexer\nX = 'x'\nY = 'y'\n@parser\n@start s = s s | X | Y\n",
	"@lexer\nX = 'x'\nY = 'y'\n@parser\n@start s = a Y | b Y\na = X\nb = X\n",
	"@lexer\nX = 'x'\nY = 'y'\n@parser\n@start s = s Y s @left(1) | s X s | X\n",
}

var c13Gen = []string{"base.gen.go", "lexer.gen.go", "parser.gen.go"}

// c13OrderKey is a pseudo file of a directory state: "rev" means the files of
// the directory were created in reverse name order (what a directory listing
// returns may depend on that; what lox generates must not).
const c13OrderKey = "\x00creation-order"

// c13Sources returns the source files of configuration i.
func c13Sources(i int) dirState {
	cf := c13Configs()[i]
	d := dirState{"user.go": cf.user}
	if parts := strings.Split(cf.lox, "\x00"); len(parts) == 2 {
		d["a.lox"], d["b.lox"] = parts[0], parts[1]
	} else {
		d["g.lox"] = cf.lox
	}
	return d
}

// c13SetSources replaces the source files of d (everything that is not a
// generated file) by those of configuration i.
func c13SetSources(d dirState, i int) {
	for n := range d {
		if !strings.HasSuffix(n, ".gen.go") && n != c13OrderKey {
			delete(d, n)
		}
	}
	for k, v := range c13Sources(i) {
		d[k] = v
	}
}

type dirState map[string]string // file name -> content

func (d dirState) key() string {
	var ns []string
	for n := range d {
		ns = append(ns, n)
	}
	sort.Strings(ns)
	h := sha256.New()
	for _, n := range ns {
		fmt.Fprintf(h, "%s\x00%s\x00", n, d[n])
	}
	return fmt.Sprintf("%x", h.Sum(nil)[:8])
}

func (d dirState) clone() dirState {
	c := dirState{}
	for k, v := range d {
		c[k] = v
	}
	return c
}

type c13Event struct {
	Kind string `json:"kind"` // run / delete / swap
	Cfg  int    `json:"cfg"`
	File string `json:"file,omitempty"`
	Mode string `json:"mode,omitempty"` // how lox is invoked: "." / relative / absolute
}

func (e c13Event) String() string {
	switch e.Kind {
	case "run":
		return fmt.Sprintf("run(%s, %s)", c13Configs()[e.Cfg].name, e.Mode)
	case "delete":
		return "delete(" + e.File + ")"
	case "reorder":
		return "recreate-files-in-opposite-order"
	}
	return fmt.Sprintf("swap(%s <- %s)", e.File, c13Configs()[e.Cfg].name)
}

type c13Runner struct {
	bin   string
	root  string
	fresh []dirState // generated files of a fresh directory per config
	rep   []string   // --report text per config
	mu    sync.Mutex
	n     int
}

// runLox materialises d in a scratch package directory, runs the real binary
// and returns the resulting generated files, stdout and exit code.
func (r *c13Runner) runLox(d dirState, mode string, report bool) (dirState, string, string, int) {
	r.mu.Lock()
	r.n++
	base := filepath.Join(r.root, fmt.Sprintf("run%d", r.n))
	r.mu.Unlock()
	dir := filepath.Join(base, "pkg")
	os.MkdirAll(dir, 0o777)
	defer os.RemoveAll(base)
	os.WriteFile(filepath.Join(base, "go.mod"), []byte("module example.com/m\n\ngo 1.23\n"), 0o666)
	// files are created in name order, or in reverse name order when the state says so
	var names []string
	for n := range d {
		if n != c13OrderKey {
			names = append(names, n)
		}
	}
	sort.Strings(names)
	if d[c13OrderKey] == "rev" {
		for i, j := 0, len(names)-1; i < j; i, j = i+1, j-1 {
			names[i], names[j] = names[j], names[i]
		}
	}
	for _, n := range names {
		os.WriteFile(filepath.Join(dir, n), []byte(d[n]), 0o666)
	}
	// modification times are part of the environment too: in name-order states
	// every source is much OLDER than any generated file left in the directory (a
	// restored or copied tree), in reverse-order states much NEWER (an edit);
	// what lox generates must not depend on either
	for _, n := range names {
		if strings.HasSuffix(n, ".gen.go") {
			continue
		}
		t := time.Unix(1000000000, 0)
		if d[c13OrderKey] == "rev" {
			t = time.Now().Add(time.Hour)
		}
		os.Chtimes(filepath.Join(dir, n), t, t)
	}
	var args []string
	if report {
		args = append(args, "--report")
	}
	cmd := exec.Command(r.bin)
	switch mode {
	case "relative":
		cmd.Dir = base
		args = append(args, "./pkg")
	case "absolute":
		cmd.Dir = "/"
		args = append(args, dir)
	default:
		cmd.Dir = dir
		args = append(args, ".")
	}
	cmd.Args = append(cmd.Args, args...)
	var so, se bytes.Buffer
	cmd.Stdout, cmd.Stderr = &so, &se
	err := cmd.Run()
	exit := 0
	if err != nil {
		exit = 1
		if ee, ok := err.(*exec.ExitError); ok {
			exit = ee.ExitCode()
		}
	}
	out := dirState{}
	ents, _ := os.ReadDir(dir)
	for _, e := range ents {
		b, _ := os.ReadFile(filepath.Join(dir, e.Name()))
		out[e.Name()] = string(b)
	}
	if o, ok := d[c13OrderKey]; ok {
		out[c13OrderKey] = o
	}
	return out, so.String(), se.String(), exit
}

func c13DirWorker(c *mc.Ctx, depth int) {
	tmpRoot, err := os.MkdirTemp(pipe.ScratchRoot(), "loxmc.c13.")
	if err != nil {
		c.Stats.HarnessError("%v", err)
		return
	}
	defer os.RemoveAll(tmpRoot)
	r := &c13Runner{bin: filepath.Join(tmpRoot, "lox"), root: tmpRoot}
	if out, err := run(root.Repo(), "go", "build", "-o", r.bin, "./cmd/lox"); err != nil {
		c.Stats.HarnessError("cannot build lox: %v: %s", err, out)
		return
	}
	cfgs := c13Configs()
	src := c13Sources
	// fresh outputs (and repeated runs in separate processes must agree)
	for i := range cfgs {
		var first dirState
		var firstRep string
		for k := 0; k < 3; k++ {
			mode := []string{".", "relative", "absolute"}[k]
			out, so, se, exit := r.runLox(src(i), mode, true)
			c.Stats.Evaluations++
			if exit != 0 {
				c.Stats.HarnessError("fresh run of config %s failed: %s", cfgs[i].name, firstLine(se))
				return
			}
			if k == 0 {
				first, firstRep = out, so
				continue
			}
			for _, f := range c13Gen {
				if out[f] != first[f] {
					c.Stats.Violate(mc.Violation{Property: "C13", Check: "C13", Kind: "repeat-run", Size: i, Case: mustJSON(map[string]any{"config": cfgs[i].name, "mode": mode}),
						Detail: fmt.Sprintf("config %s: %s differs between two runs on fresh directories (invocation %q vs \".\"): %s", cfgs[i].name, f, mode, pipe.FirstDiff(out[f], first[f]))})
				}
			}
			if so != firstRep {
				c.Stats.Violate(mc.Violation{Property: "C13", Check: "C13", Kind: "repeat-report", Size: i, Case: mustJSON(map[string]any{"config": cfgs[i].name, "mode": mode}),
					Detail: fmt.Sprintf("config %s: --report text differs between two runs (invocation %q vs \".\"): %s", cfgs[i].name, mode, pipe.FirstDiff(so, firstRep))})
			}
		}
		r.fresh = append(r.fresh, first)
		r.rep = append(r.rep, firstRep)
	}
	// grammars with conflicts: the --report text is printed before lox gives up;
	// it too must not depend on how the directory was named or where lox ran
	for ci, cg := range c13ConflictGrammars {
		d := dirState{"g.lox": cg, "user.go": c13UserA}
		var firstRep string
		for k, mode := range []string{".", "relative", "absolute"} {
			_, so, se, exit := r.runLox(d, mode, true)
			c.Stats.Evaluations++
			c.Stats.Nontrivial++
			if exit == 0 || !strings.Contains(se, "conflict") {
				c.Stats.HarnessError("conflict grammar %d: expected lox to report conflicts (exit %d): %s", ci, exit, firstLine(se))
				break
			}
			if k == 0 {
				firstRep = so
				continue
			}
			if so != firstRep {
				c.Stats.Violate(mc.Violation{Property: "C13", Check: "C13", Kind: "repeat-report", Size: ci, Case: mustJSON(map[string]any{"conflict_grammar": cg, "mode": mode}),
					Detail: fmt.Sprintf("grammar with conflicts {%s}: the --report text differs between invocation %q and \".\": %s", strings.ReplaceAll(cg, "\n", " | "), mode, pipe.FirstDiff(so, firstRep))})
			}
		}
	}
	// BFS over directory states
	type node struct {
		d    dirState
		path []c13Event
	}
	start := node{d: dirState{}}
	seen := map[string]bool{start.d.key(): true}
	frontier := []node{start}
	modes := []string{".", "relative", "absolute"}
	var mu sync.Mutex
	for lvl := 0; lvl < depth; lvl++ {
		var next []node
		var wg sync.WaitGroup
		sem := make(chan struct{}, 12)
		for _, nd := range frontier {
			var events []c13Event
			for i := range cfgs {
				events = append(events, c13Event{Kind: "run", Cfg: i, Mode: modes[(lvl+i+len(nd.path))%3]})
			}
			events = append(events, c13Event{Kind: "reorder"})
			for _, f := range c13Gen {
				if _, ok := nd.d[f]; ok {
					events = append(events, c13Event{Kind: "delete", File: f})
				}
				for i := range cfgs {
					if nd.d[f] != r.fresh[i][f] {
						events = append(events, c13Event{Kind: "swap", Cfg: i, File: f})
					}
				}
			}
			for _, ev := range events {
				nd, ev := nd, ev
				wg.Add(1)
				sem <- struct{}{}
				go func() {
					defer wg.Done()
					defer func() { <-sem }()
					d2 := nd.d.clone()
					path := append(append([]c13Event{}, nd.path...), ev)
					switch ev.Kind {
					case "reorder":
						if d2[c13OrderKey] == "rev" {
							delete(d2, c13OrderKey)
						} else {
							d2[c13OrderKey] = "rev"
						}
					case "delete":
						delete(d2, ev.File)
					case "swap":
						d2[ev.File] = r.fresh[ev.Cfg][ev.File]
					case "run":
						c13SetSources(d2, ev.Cfg)
						out, _, se, exit := r.runLox(d2, ev.Mode, false)
						mu.Lock()
						c.Stats.Evaluations++
						c.Stats.Nontrivial++
						c.Stats.Validated++
						mu.Unlock()
						bad := ""
						if exit != 0 {
							bad = "lox failed over a directory holding generated files of an earlier run: " + c13RunRe.ReplaceAllString(strings.ReplaceAll(firstLine(se), r.root, "<tmp>"), "runN")
						} else {
							for _, f := range c13Gen {
								if out[f] != r.fresh[ev.Cfg][f] {
									bad = f + " differs from what a fresh directory gets: " + pipe.FirstDiff(out[f], r.fresh[ev.Cfg][f])
									break
								}
							}
						}
						if bad != "" {
							var ps []string
							for _, e := range path {
								ps = append(ps, e.String())
							}
							mu.Lock()
							c.Stats.Violate(mc.Violation{Property: "C13", Check: "C13", Kind: "history-dependence", Size: len(path), Case: mustJSON(map[string]any{"history": path}),
								Detail: "history " + strings.Join(ps, " ; ") + ": " + bad})
							mu.Unlock()
							return
						}
						d2 = out
					}
					mu.Lock()
					c.Stats.Transitions++
					k := d2.key()
					if !seen[k] {
						seen[k] = true
						next = append(next, node{d: d2, path: path})
					}
					mu.Unlock()
				}()
			}
		}
		wg.Wait()
		// goroutines finish in any order: keep the search itself reproducible
		sort.Slice(next, func(i, j int) bool { return fmt.Sprint(next[i].path) < fmt.Sprint(next[j].path) })
		frontier = next
	}
	c.Stats.States += int64(len(seen))
	c.Stats.Add("directory_states", int64(len(seen)))
	c.Stats.Sample(map[string]any{"directory_state_bfs_depth": depth, "events": "run lox for A / B / A+_onBounds (invoked as '.', relative path, absolute path from /), delete each *.gen.go, replace each *.gen.go by another configuration's"})
}

// ---------------------------------------------------------------------------
// (c) Earlier generations in the SAME process (library use of the generator):
// one process walks through every ordered pair of configurations with the real
// codegen.Generate (packages.Load included); the second generation of each
// pair must produce exactly what a fresh process produces.

var c13RunRe = regexp.MustCompile(`run[0-9]+`)

var c13TmpRe = regexp.MustCompile(`loxmc\.c13c\.[0-9]+`)

func c13InProcess(c *mc.Ctx) {
	tmpRoot, err := os.MkdirTemp(pipe.ScratchRoot(), "loxmc.c13c.")
	if err != nil {
		c.Stats.HarnessError("%v", err)
		return
	}
	defer os.RemoveAll(tmpRoot)
	cfgs := c13Configs()
	// package names differ between configurations
	pkgName := []string{"p", "q", "p", "q", "p"}
	mk := func(i int, tag string) string {
		base := filepath.Join(tmpRoot, tag)
		dir := filepath.Join(base, "pkg")
		os.MkdirAll(dir, 0o777)
		os.WriteFile(filepath.Join(base, "go.mod"), []byte("module example.com/m\n\ngo 1.23\n"), 0o666)
		srcs := c13Sources(i)
		var names []string
		for n := range srcs {
			names = append(names, n)
		}
		sort.Strings(names) // files are always created in the same order
		for _, n := range names {
			t := srcs[n]
			if n == "user.go" {
				t = strings.Replace(t, "package p\n", "package "+pkgName[i]+"\n", 1)
			}
			os.WriteFile(filepath.Join(dir, n), []byte(t), 0o666)
		}
		return dir
	}
	read := func(dir string) dirState {
		d := dirState{}
		for _, f := range c13Gen {
			b, _ := os.ReadFile(filepath.Join(dir, f))
			d[f] = string(b)
		}
		return d
	}
	// reference: each configuration generated by a fresh process (this binary re-executed)
	self, _ := os.Executable()
	fresh := make([]dirState, len(cfgs))
	for i := range cfgs {
		dir := mk(i, fmt.Sprintf("fresh%d", i))
		out, err := exec.Command(self, "genreal", dir).CombinedOutput()
		if err != nil {
			c.Stats.HarnessError("fresh in-process generation of %s failed: %v %s", cfgs[i].name, err, firstLine(string(out)))
			return
		}
		fresh[i] = read(dir)
	}
	n := 0
	for x := range cfgs {
		for y := range cfgs {
			n++
			d1 := mk(x, fmt.Sprintf("h%d_1", n))
			ok1, diag1, p1 := pipe.RunReal(d1)
			d2 := mk(y, fmt.Sprintf("h%d_2", n))
			ok2, diag2, p2 := pipe.RunReal(d2)
			c.Stats.Evaluations += 2
			c.Stats.Nontrivial++
			c.Stats.Transitions++
			_ = ok1
			_ = diag1
			_ = p1
			bad := ""
			switch {
			case p2 != "":
				bad = "the generator panicked: " + firstLine(p2)
			case !ok2:
				d := strings.ReplaceAll(diag2, tmpRoot, "<tmp>")
				if wd, err := os.Getwd(); err == nil {
					if rel, err := filepath.Rel(wd, tmpRoot); err == nil {
						d = strings.ReplaceAll(d, rel, "<tmp>")
					}
				}
				bad = "the generation failed: " + firstLine(c13TmpRe.ReplaceAllString(d, "loxmc.c13c.N"))
			default:
				got := read(d2)
				for _, f := range c13Gen {
					if got[f] != fresh[y][f] {
						bad = f + " differs from what a fresh process generates: " + pipe.FirstDiff(got[f], fresh[y][f])
						break
					}
				}
			}
			if bad != "" {
				c.Stats.Violate(mc.Violation{Property: "C13", Check: "C13", Kind: "in-process-history", Size: n, Case: mustJSON(map[string]any{"inprocess": []string{cfgs[x].name, cfgs[y].name}}),
					Detail: fmt.Sprintf("in one process, generating %s (package %s) and then %s (package %s): %s", cfgs[x].name, pkgName[x], cfgs[y].name, pkgName[y], bad)})
			}
		}
	}
	c.Stats.Add("in_process_ordered_pairs", int64(n))
}

// ---------------------------------------------------------------------------
// Parent: runs (b) in process and (a) in the instrumented binary.

func c13Worker(c *mc.Ctx) {
	depth := 3
	if c.Quick() {
		depth = 2
	}
	c13DirWorker(c, depth)
	c13InProcess(c)
	c13ParseOrder(c)
	// (a) map-order seam: a separate binary built with every map range rewritten
	bin := root.Path("bin", "loxmc-maporder")
	if _, err := os.Stat(bin); err != nil {
		c.Stats.HarnessError("bin/loxmc-maporder is missing (run.sh builds it for C13)")
		return
	}
	b, err := os.ReadFile(root.Path("work", "maporder", "sites.json"))
	if err == nil {
		var sj struct {
			Sites   []string `json:"sites"`
			Skipped []string `json:"skipped"`
		}
		json.Unmarshal(b, &sj)
		c.Stats.Add("map_range_sites_rewritten", int64(len(sj.Sites)))
		for _, s := range sj.Skipped {
			c.Stats.Cap("map range not under the explorer's control: " + s)
		}
		c.Stats.Sample(map[string]any{"rewritten_map_range_sites": sj.Sites})
	}
	tier := "thorough"
	if c.Quick() {
		tier = "quick"
	}
	n := 16
	var wg sync.WaitGroup
	var mu sync.Mutex
	for i := 0; i < n; i++ {
		wg.Add(1)
		go func(i int) {
			defer wg.Done()
			out := filepath.Join(pipe.ScratchRoot(), fmt.Sprintf("loxmc.c13.mo.%d.%d.json", os.Getpid(), i))
			defer os.Remove(out)
			cmd := exec.Command(bin, "worker", "C13maporder", tier, fmt.Sprint(i), fmt.Sprint(n), out)
			cmd.Env = append(os.Environ(), "GOMAXPROCS=1", "GOGC=400")
			cmd.Stderr = os.Stderr
			if err := cmd.Run(); err != nil {
				mu.Lock()
				c.Stats.HarnessError("map-order worker %d: %v", i, err)
				mu.Unlock()
				return
			}
			b, err := os.ReadFile(out)
			if err != nil {
				return
			}
			var st mc.Stats
			if json.Unmarshal(b, &st) != nil {
				return
			}
			mu.Lock()
			c.Stats.Evaluations += st.Evaluations
			c.Stats.Nontrivial += st.Nontrivial
			c.Stats.States += st.States
			c.Stats.Transitions += st.Transitions
			for k, v := range st.Extra {
				if k == "distinct_outputs_max" {
					if v > c.Stats.Extra[k] {
						c.Stats.Add(k, v-c.Stats.Extra[k])
					}
					continue
				}
				c.Stats.Add(k, v)
			}
			for _, s := range st.Samples {
				c.Stats.Sample(s)
			}
			for _, x := range st.Caps {
				c.Stats.Cap(x)
			}
			for _, x := range st.Notes {
				c.Stats.Note(x)
			}
			c.Stats.Violations = append(c.Stats.Violations, st.Violations...)
			mu.Unlock()
		}(i)
	}
	wg.Wait()
}

// c13ReplayHistory executes one recorded history on a fresh directory with the
// real binary and applies the oracle of the search to every run in it.
func c13ReplayHistory(history []c13Event) *mc.Violation {
	tmpRoot, err := os.MkdirTemp(pipe.ScratchRoot(), "loxmc.c13.")
	if err != nil {
		return &mc.Violation{Property: "C13", Kind: "bad-replay", Detail: err.Error()}
	}
	defer os.RemoveAll(tmpRoot)
	r := &c13Runner{bin: filepath.Join(tmpRoot, "lox"), root: tmpRoot}
	if out, err := run(root.Repo(), "go", "build", "-o", r.bin, "./cmd/lox"); err != nil {
		return &mc.Violation{Property: "C13", Kind: "bad-replay", Detail: fmt.Sprint(err, out)}
	}
	cfgs := c13Configs()
	src := c13Sources
	for i := range cfgs {
		out, _, se, exit := r.runLox(src(i), ".", false)
		if exit != 0 {
			return &mc.Violation{Property: "C13", Kind: "bad-replay", Detail: "fresh run failed: " + firstLine(se)}
		}
		r.fresh = append(r.fresh, out)
	}
	d := dirState{}
	var ps []string
	for _, ev := range history {
		if ev.Cfg < 0 || ev.Cfg >= len(cfgs) {
			return nil
		}
		ps = append(ps, ev.String())
		switch ev.Kind {
		case "reorder":
			if d[c13OrderKey] == "rev" {
				delete(d, c13OrderKey)
			} else {
				d[c13OrderKey] = "rev"
			}
		case "delete":
			delete(d, ev.File)
		case "swap":
			d[ev.File] = r.fresh[ev.Cfg][ev.File]
		case "run":
			c13SetSources(d, ev.Cfg)
			out, _, se, exit := r.runLox(d, ev.Mode, false)
			bad := ""
			if exit != 0 {
				bad = "lox failed over a directory holding generated files of an earlier run: " + c13RunRe.ReplaceAllString(strings.ReplaceAll(firstLine(se), r.root, "<tmp>"), "runN")
			} else {
				for _, f := range c13Gen {
					if out[f] != r.fresh[ev.Cfg][f] {
						bad = f + " differs from what a fresh directory gets: " + pipe.FirstDiff(out[f], r.fresh[ev.Cfg][f])
						break
					}
				}
			}
			if bad != "" {
				return &mc.Violation{Property: "C13", Check: "C13", Kind: "history-dependence", Size: len(ps), Case: mustJSON(map[string]any{"history": history}),
					Detail: "history " + strings.Join(ps, " ; ") + ": " + bad}
			}
			d = out
		}
	}
	return nil
}

func c13Replay(raw json.RawMessage) *mc.Violation {
	var probe struct {
		Schedule map[string]any `json:"schedule"`
		History  []c13Event     `json:"history"`
	}
	json.Unmarshal(raw, &probe)
	if probe.Schedule != nil {
		// delegate to the instrumented binary
		tmp := filepath.Join(pipe.ScratchRoot(), fmt.Sprintf("loxmc.c13.replay.%d.json", os.Getpid()))
		defer os.Remove(tmp)
		v := mc.Violation{Property: "C13", Check: "C13maporder", Case: raw}
		b, _ := json.Marshal(v)
		os.WriteFile(tmp, b, 0o666)
		out, err := exec.Command(root.Path("bin", "loxmc-maporder"), "replay", tmp).Output()
		if err == nil {
			return nil
		}
		return &mc.Violation{Property: "C13", Check: "C13", Kind: "map-order", Detail: strings.TrimSpace(string(out))}
	}
	var po struct {
		Pkg   string `json:"parse_order_package"`
		Order []int  `json:"order"`
	}
	json.Unmarshal(raw, &po)
	if po.Pkg != "" {
		return c13ParseOrderReplay(po.Pkg, po.Order)
	}
	var ip struct {
		InProcess []string `json:"inprocess"`
	}
	json.Unmarshal(raw, &ip)
	if ip.InProcess != nil {
		ctx := &mc.Ctx{NShards: 1}
		c13InProcess(ctx)
		for _, v := range ctx.Stats.Violations {
			var got struct {
				InProcess []string `json:"inprocess"`
			}
			json.Unmarshal(v.Case, &got)
			if fmt.Sprint(got.InProcess) == fmt.Sprint(ip.InProcess) {
				return &v
			}
		}
		return nil
	}
	// directory histories: execute the recorded history, event by event
	if len(probe.History) > 0 {
		return c13ReplayHistory(probe.History)
	}
	ctx := &mc.Ctx{NShards: 1}
	c13DirWorker(ctx, maxInt(len(probe.History), 1))
	for _, v := range ctx.Stats.Violations {
		var got struct {
			History []c13Event `json:"history"`
		}
		json.Unmarshal(v.Case, &got)
		if fmt.Sprint(got.History) == fmt.Sprint(probe.History) {
			return &v
		}
	}
	if len(ctx.Stats.Violations) > 0 && probe.History == nil {
		return &ctx.Stats.Violations[0]
	}
	return nil
}

func init() {
	mc.Register(&mc.Check{
		ID:    "C13",
		Level: "model_checking",
		Rule: "(a) map iteration order: every `range` over a built-in map in lox's non-test sources is rewritten at check time into a loop over keys the explorer orders (canonical order = default choice); for each specification the whole pipeline is executed under every schedule with one deviating dynamic occurrence (every non-identity permutation for maps of <= 3 keys, else reverse / rotate / swap-first / swap-last), under every site-uniform policy (reverse, rotate) of one site (thorough: two sites) and of all sites; generated files, --report text and diagnostics must hash to one value; states = dynamic map iterations, transitions = executions. " +
			"(b) earlier runs: breadth-first search over directory states (the files of the package directory), events = run the REAL binary for grammar A / grammar B / A with _onBounds / A with two declarations exchanged / A split over two files (invoked as '.', by relative path and by absolute path from another directory; a run replaces the directory's source files and keeps its generated files), delete each *.gen.go, replace each *.gen.go by another configuration's, re-create the directory's files in the opposite order; every run must exit 0 and leave exactly the bytes a fresh directory gets; --report texts (also of three grammars that are refused for conflicts) are equal under the three invocations; (c) every ordered pair of configurations generated in one process against a fresh process; (d) FileSet registration order: packages whose action methods are spread over three Go files (one result type spelled interface{} and any, an alias and its target, _onBounds and Token elsewhere) generated under every permutation of the order in which the files are parsed (the list handed to the type checker stays in name order), which packages.Load leaves to the goroutine scheduler: identical output required; non-trivial = one real run over a non-fresh directory",
		Assume: []string{"libraries outside the repository (jet, go/types, gofmt, packages.Load) are exercised by the separate processes of (b), not explored", "a map whose keys have no canonical order would be reported as a cap (none today)"},
		Worker: c13Worker,
		Replay: c13Replay,
		Serial: true,
	})
}
