package main

func selfCheck() int { return 0 }
