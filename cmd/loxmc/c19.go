package main

import (
	"encoding/json"
	"fmt"
	goast "go/ast"
	goparser "go/parser"
	gotoken "go/token"
	"sort"
	"strconv"
	"strings"

	"github.com/dcaiafa/lox/verif/internal/gen"
	"github.com/dcaiafa/lox/verif/internal/lalrref"
	"github.com/dcaiafa/lox/verif/internal/mc"
	"github.com/dcaiafa/lox/verif/internal/pipe"
	"github.com/dcaiafa/lox/verif/internal/px"
	"github.com/dcaiafa/lox/verif/internal/st3"
)

// A layout is a sequence of declaration items; the harness prints the text
// itself and therefore knows the expected numbering: EOF=0, ERROR=1, then
// every token / external name in textual order, files in name order.
const (
	itTok  = 'D' // token in the default mode
	itM0   = 'm' // mode with no token (one fragment)
	itM1   = 'M' // mode with one token
	itM2   = 'N' // mode with two tokens
	itX1   = 'x' // @external with one name
	itX2   = 'X' // @external with two names
	itEmit = 'F' // fragment that @emit()s the most recently declared token
)

var c19Items = []byte{itTok, itM0, itM1, itM2, itX1, itX2, itEmit}

type c19Layout struct {
	Items string `json:"items"`
	Split int    `json:"split"` // -1: one file; k: items[k:] go to a second file
	// Where the worker met the layout (so that a replay can re-create the
	// generations that preceded it in that process, should the failure depend
	// on them): layout number i of c19Layouts(MaxLen, SplitUpTo), shard Shard of NShards.
	Hist *c19Hist `json:"history,omitempty"`
}

type c19Hist struct {
	I, Shard, NShards, MaxLen, SplitUpTo int
}

type c19Spec struct {
	files    map[string]string
	tokens   []string          // expected order (constants 2..)
	patterns map[string]rune   // token -> its single-character pattern
	tokMode  map[string]string // token -> mode name ("" default)
	emits    map[rune]string   // fragment pattern -> token emitted (default mode)
	used     []string          // tokens referenced by the parser
	g        *gen.Grammar
}

func (l c19Layout) build() *c19Spec {
	sp := &c19Spec{files: map[string]string{}, patterns: map[string]rune{}, tokMode: map[string]string{}, emits: map[rune]string{}}
	var a, b strings.Builder
	cur := &a
	a.WriteString("@lexer\n")
	next := 'a'
	nTok, nMode, nExt := 0, 0, 0
	newTok := func(mode string) string {
		nTok++
		name := fmt.Sprintf("T%d", nTok)
		sp.tokens = append(sp.tokens, name)
		sp.patterns[name] = next
		sp.tokMode[name] = mode
		next++
		return name
	}
	lastTok := ""
	for i := 0; i < len(l.Items); i++ {
		if i == l.Split {
			cur = &b
			b.WriteString("@lexer\n")
		}
		switch l.Items[i] {
		case itTok:
			t := newTok("")
			fmt.Fprintf(cur, "%s = '%c'\n", t, sp.patterns[t])
			lastTok = t
		case itM0, itM1, itM2:
			nMode++
			mname := fmt.Sprintf("Mode%d", nMode)
			// mode names sort after "$default" but in reverse of declaration
			// order when there are two (Mode1 < Mode2 though; use Z/A prefixes)
			if nMode == 1 {
				mname = "Zm"
			} else {
				mname = fmt.Sprintf("Am%d", nMode)
			}
			fmt.Fprintf(cur, "@mode %s {\n", mname)
			k := map[byte]int{itM0: 0, itM1: 1, itM2: 2}[l.Items[i]]
			if k == 0 {
				fmt.Fprintf(cur, "  @frag '%c' @discard\n", next)
				next++
			}
			for j := 0; j < k; j++ {
				t := newTok(mname)
				fmt.Fprintf(cur, "  %s = '%c'\n", t, sp.patterns[t])
				lastTok = t
			}
			cur.WriteString("}\n")
		case itX1, itX2:
			k := 1
			if l.Items[i] == itX2 {
				k = 2
			}
			var names []string
			for j := 0; j < k; j++ {
				nExt++
				n := fmt.Sprintf("EXT%d", nExt)
				names = append(names, n)
				sp.tokens = append(sp.tokens, n)
			}
			fmt.Fprintf(cur, "@external %s\n", strings.Join(names, " "))
		case itEmit:
			if lastTok == "" {
				return nil
			}
			fmt.Fprintf(cur, "@frag '%c' @emit(%s)\n", next, lastTok)
			sp.emits[next] = lastTok
			next++
		}
	}
	// parser: references the first and last declared names and, when there
	// are at least three, one in the middle; the others stay unreferenced
	g := &gen.Grammar{Toks: sp.tokens}
	// (@external names cannot be referenced from the parser section in lox, so
	// only token rules are used there)
	var rules []int
	for i, t := range sp.tokens {
		if _, ok := sp.patterns[t]; ok {
			rules = append(rules, i)
		}
	}
	if len(rules) > 0 {
		first, last := rules[0], rules[len(rules)-1]
		alts := []gen.Alt{{Terms: []gen.Term{{X: gen.Sym{K: gen.T, I: first}}, {X: gen.Sym{K: gen.T, I: last}}}}}
		sp.used = append(sp.used, sp.tokens[first], sp.tokens[last])
		if len(rules) >= 3 {
			mid := rules[len(rules)/2]
			alts = append(alts, gen.Alt{Terms: []gen.Term{{X: gen.Sym{K: gen.T, I: mid}}}})
			sp.used = append(sp.used, sp.tokens[mid])
		}
		g.Rules = []gen.Rule{{Name: "s", Alts: alts}}
		cur.WriteString("\n" + g.ParserText())
	} else {
		g.Rules = nil
	}
	sp.g = g
	sp.files["a.lox"] = a.String()
	if l.Split >= 0 {
		sp.files["b.lox"] = b.String()
	}
	return sp
}

func c19UserGo(g *gen.Grammar) string {
	if len(g.Rules) == 0 {
		return "package carrier\n\ntype Token struct {\n\tType int\n\tIdx  int\n}\n\ntype parser struct {\n\tlox\n}\n"
	}
	return g.CarrierUserGo(false)
}

// parseConsts reads the first const block of base.gen.go.
func parseBase(src string) (names []string, values []int, toString map[string]string, deflt string, err error) {
	fset := gotoken.NewFileSet()
	f, perr := goparser.ParseFile(fset, "base.gen.go", src, 0)
	if perr != nil {
		return nil, nil, nil, "", perr
	}
	toString = map[string]string{}
	seenConst := false
	for _, d := range f.Decls {
		switch x := d.(type) {
		case *goast.GenDecl:
			if x.Tok != gotoken.CONST || seenConst {
				continue
			}
			seenConst = true
			for _, s := range x.Specs {
				vs := s.(*goast.ValueSpec)
				if len(vs.Names) != 1 || len(vs.Values) != 1 {
					return nil, nil, nil, "", fmt.Errorf("unexpected const spec shape")
				}
				lit, ok := vs.Values[0].(*goast.BasicLit)
				if !ok {
					return nil, nil, nil, "", fmt.Errorf("const %s is not a literal", vs.Names[0].Name)
				}
				if id, ok := vs.Type.(*goast.Ident); !ok || id.Name != "int" {
					return nil, nil, nil, "", fmt.Errorf("const %s is not declared int", vs.Names[0].Name)
				}
				v, _ := strconv.Atoi(lit.Value)
				names = append(names, vs.Names[0].Name)
				values = append(values, v)
			}
		case *goast.FuncDecl:
			if x.Name.Name != "_TokenToString" {
				continue
			}
			for _, st := range x.Body.List {
				sw, ok := st.(*goast.SwitchStmt)
				if !ok {
					continue
				}
				for _, cc := range sw.Body.List {
					cl := cc.(*goast.CaseClause)
					ret := ""
					if len(cl.Body) == 1 {
						if r, ok := cl.Body[0].(*goast.ReturnStmt); ok && len(r.Results) == 1 {
							if bl, ok := r.Results[0].(*goast.BasicLit); ok {
								ret, _ = strconv.Unquote(bl.Value)
							}
						}
					}
					if cl.List == nil {
						deflt = ret
						continue
					}
					for _, e := range cl.List {
						if id, ok := e.(*goast.Ident); ok {
							if _, dup := toString[id.Name]; dup {
								return nil, nil, nil, "", fmt.Errorf("_TokenToString has two cases for %s", id.Name)
							}
							toString[id.Name] = ret
						} else {
							return nil, nil, nil, "", fmt.Errorf("_TokenToString case is not a constant name")
						}
					}
				}
			}
		}
	}
	return
}

// lexAccept simulates a decoded mode table on a rune sequence and returns the
// parameter of the Accept action of the state reached (independent reader of
// the documented row format).
func lexAccept(table []uint32, input []rune) (int, bool) {
	rows, err := px.DecodeRows(table)
	if err != nil {
		return 0, false
	}
	st := 0
	for _, r := range input {
		row := rows[st]
		n := int(row[1])
		found := false
		for k := 0; k < n; k++ {
			if uint32(r) >= row[2+3*k] && uint32(r) <= row[3+3*k] {
				st = int(row[4+3*k])
				found = true
				break
			}
		}
		if !found {
			return 0, false
		}
	}
	row := rows[st]
	acts := row[2+3*int(row[1]):]
	for k := 0; k+1 < len(acts); k += 2 {
		if acts[k] == 3 {
			return int(acts[k+1]), true
		}
	}
	return 0, false
}

func c19One(ws *pipe.Workspace, l c19Layout, st *mc.Stats) []mc.Violation {
	sp := l.build()
	if sp == nil {
		return nil
	}
	var out []mc.Violation
	raw, _ := json.Marshal(l)
	text := sp.files["a.lox"]
	if b, ok := sp.files["b.lox"]; ok {
		text += "---- b.lox ----\n" + b
	}
	bad := func(kind, detail string) {
		out = append(out, mc.Violation{Property: "C19", Check: "C19", Kind: kind, Size: len(l.Items)*10 + l.Split + 1, Case: raw,
			Detail: fmt.Sprintf("layout %q split %d: %s\n%s", l.Items, l.Split, detail, text)})
	}
	st.Evaluations++
	b := px.BuildSpec(ws, sp.g, &pipe.Spec{Lox: sp.files, Go: map[string]string{"user.go": c19UserGo(sp.g)}}, px.NB)
	switch b.Status {
	case px.Panicked:
		return []mc.Violation{{Property: "C12", Check: "C19", Kind: "generator-panic", Size: len(l.Items), Case: raw, Detail: "generator panicked: " + firstLine(b.Res.Panic) + "\n" + text}}
	case px.Broken:
		st.HarnessError("layout %q: %s", l.Items, b.Problem)
		return nil
	case px.Accepted:
	default:
		bad("rejected", "a well-formed specification was not accepted: "+firstLine(b.Res.Diag))
		return out
	}
	st.Validated++
	if len(sp.tokens) >= 3 {
		st.Nontrivial++
	}
	names, values, toStr, deflt, err := parseBase(b.Res.Base)
	if err != nil {
		bad("base-shape", err.Error())
		return out
	}
	want := append([]string{"EOF", "ERROR"}, sp.tokens...)
	if strings.Join(names, " ") != strings.Join(want, " ") {
		bad("const-names", fmt.Sprintf("const block declares %v, expected exactly %v (declaration order)", names, want))
		return out
	}
	for i, v := range values {
		if v != i {
			bad("const-values", fmt.Sprintf("%s = %d, expected %d (EOF=0, ERROR=1, dense)", names[i], v, i))
			return out
		}
	}
	if len(toStr) == 0 && deflt == "" {
		// _TokenToString is not a switch over the constants (template
		// refactored): its behaviour is decided by the compiled sample only
		st.Add("tokentostring_ast_shape_unknown", 1)
	} else {
		for _, n := range want {
			if toStr[n] != n {
				bad("tokentostring", fmt.Sprintf("_TokenToString(%s) returns %q", n, toStr[n]))
			}
		}
		if len(toStr) != len(want) {
			bad("tokentostring", fmt.Sprintf("_TokenToString has %d cases for %d constants", len(toStr), len(want)))
		}
		if deflt != "???" {
			bad("tokentostring", fmt.Sprintf("_TokenToString default returns %q", deflt))
		}
	}
	if c19Collect != nil {
		c19Collect(l, sp, b, want)
	}
	constOf := map[string]int{}
	for i, n := range want {
		constOf[n] = i
	}
	// lexer tables: every rule's accept parameter is its token's constant
	modeNames := map[string]bool{"$default": true}
	for _, m := range sp.tokMode {
		if m != "" {
			modeNames[m] = true
		}
	}
	for _, ch := range l.Items {
		_ = ch
	}
	// mode index = rank of the name among all declared modes (incl. token-less ones)
	var allModes []string
	for name := range b.Res.V.Modes {
		allModes = append(allModes, name)
	}
	sort.Strings(allModes)
	modeIdx := map[string]int{}
	for i, n := range allModes {
		modeIdx[n] = i
	}
	for tok, pat := range sp.patterns {
		mname := sp.tokMode[tok]
		if mname == "" {
			mname = "$default"
		}
		mi, ok := modeIdx[mname]
		if !ok || mi >= len(b.LexModes) {
			bad("lexer-mode", fmt.Sprintf("no table for mode %s", mname))
			continue
		}
		got, ok := lexAccept(b.LexModes[mi], []rune{pat})
		if !ok || got != constOf[tok] {
			bad("lexer-accept", fmt.Sprintf("rule %s = '%c' in mode %s accepts with parameter %d (found=%v), its constant is %d", tok, pat, mname, got, ok, constOf[tok]))
		}
	}
	for pat, tok := range sp.emits {
		got, ok := lexAccept(b.LexModes[modeIdx["$default"]], []rune{pat})
		if !ok || got != constOf[tok] {
			bad("lexer-emit", fmt.Sprintf("@frag '%c' @emit(%s) accepts with parameter %d (found=%v), the constant is %d", pat, tok, got, ok, constOf[tok]))
		}
	}
	// parser tables keyed by the same numbers
	if len(sp.g.Rules) > 0 {
		ref := lalrref.Build(sp.g)
		m := buildMap(ref, b.Res.V.Grammar)
		// buildMap resolves lox terminals by NAME; make sure the index a name
		// has in lox's grammar is the constant
		for _, t := range b.Res.V.Grammar.Terminals {
			if c, ok := constOf[t.Name]; !ok || c != t.Index {
				bad("grammar-index", fmt.Sprintf("terminal %s has index %d in the grammar, constant %d", t.Name, t.Index, c))
			}
		}
		if ms := compareArrays(ref, b, m); len(ms) > 0 {
			bad("parser-keys", "parser tables: "+ms[0].detail)
		}
		// end to end: a sentence written with the EXPECTED constants parses
		r := px.NewRunner(px.NB)
		b.Install(r.C)
		r.NStates = len(b.Actions)
		for _, alt := range sp.g.Rules[0].Alts {
			var w []int
			for _, t := range alt.Terms {
				w = append(w, constOf[sp.tokens[t.X.I]])
			}
			o := r.Run(w)
			st.States += int64(len(r.Configs))
			st.Transitions += r.Steps
			if !o.OK {
				bad("parse", fmt.Sprintf("sentence %v written with the constants of base.gen.go is rejected by the parser tables", w))
			}
		}
	}
	// Edit and regenerate: each neighbour of the layout (two adjacent items
	// exchanged, which renumbers the constants) generated over this layout's
	// output, in the same directory, must give what a fresh directory gives.
	if len(out) == 0 && l.Split < 0 {
		items := []byte(l.Items)
		for i := 0; i+1 < len(items); i++ {
			if items[i] == items[i+1] {
				continue
			}
			sw := append([]byte(nil), items...)
			sw[i], sw[i+1] = sw[i+1], sw[i]
			l2 := c19Layout{Items: string(sw), Split: -1}
			sp2 := l2.build()
			if sp2 == nil {
				continue
			}
			spec1 := &pipe.Spec{Lox: sp.files, Go: map[string]string{"user.go": c19UserGo(sp.g)}}
			spec2 := &pipe.Spec{Lox: sp2.files, Go: map[string]string{"user.go": c19UserGo(sp2.g)}}
			fresh := ws.RunFast(spec2, nil)
			if !fresh.OK {
				continue
			}
			fb, fl, fp := fresh.Base, fresh.Lexer, fresh.Parser
			_, over := ws.RunFastOver(spec1, spec2, nil)
			st.Evaluations++
			st.Add("regenerated_over_neighbour", 1)
			for _, f := range [][3]string{{"base.gen.go", fb, over.Base}, {"lexer.gen.go", fl, over.Lexer}, {"parser.gen.go", fp, over.Parser}} {
				if f[1] != f[2] {
					bad("stale-after-regeneration", fmt.Sprintf("after generating this layout, the specification was edited to layout %q and regenerated in the same directory: %s is not what a fresh directory gets (%s); the constants, the lexer tables and the parser tables no longer describe one specification", l2.Items, f[0], pipe.FirstDiff(f[2], f[1])))
					break
				}
			}
		}
	}
	return out
}

func c19Layouts(maxLen int, splitUpTo int) []c19Layout {
	var out []c19Layout
	var rec func(cur []byte)
	rec = func(cur []byte) {
		if len(cur) > 0 {
			modes := 0
			for _, c := range cur {
				if c == itM0 || c == itM1 || c == itM2 {
					modes++
				}
			}
			if modes <= 2 {
				out = append(out, c19Layout{Items: string(cur), Split: -1})
				if len(cur) <= splitUpTo {
					for k := 1; k < len(cur); k++ {
						out = append(out, c19Layout{Items: string(cur), Split: k})
					}
				}
			}
		}
		if len(cur) == maxLen {
			return
		}
		for _, it := range c19Items {
			rec(append(cur[:len(cur):len(cur)], it))
		}
	}
	rec(nil)
	return out
}

// c19Collect, when set, receives every accepted layout (the worker keeps a
// sample of them for the compiled _TokenToString check).
var c19Collect func(l c19Layout, sp *c19Spec, b *px.Built, want []string)

type c19Compiled struct {
	l     c19Layout
	files map[string]string
	want  []string
}

// c19RunCompiled compiles the sampled packages for real and calls
// _TokenToString for every constant and for -1, n, n+1 and MaxInt.
func c19RunCompiled(c *mc.Ctx, sample []c19Compiled) {
	if len(sample) == 0 {
		return
	}
	var pkgs []st3.Pkg
	var mb strings.Builder
	mb.WriteString("package main\n\nimport (\n\t\"fmt\"\n")
	for i := range sample {
		fmt.Fprintf(&mb, "\t%q\n", fmt.Sprintf("example.com/st3/k%d", i))
	}
	mb.WriteString(")\n\nfunc call(f func(int) string, v int) (s string) {\n\tdefer func() {\n\t\tif r := recover(); r != nil {\n\t\t\ts = fmt.Sprint(\"PANIC: \", r)\n\t\t}\n\t}()\n\treturn f(v)\n}\n\nfunc main() {\n")
	for i, sc := range sample {
		name := fmt.Sprintf("k%d", i)
		files := map[string]string{}
		for n, t := range sc.files {
			files[n] = strings.Replace(t, "package carrier", "package "+name, 1)
		}
		files["export.go"] = "package " + name + "\n\nfunc TokenToString(t int) string { return _TokenToString(t) }\n"
		pkgs = append(pkgs, st3.Pkg{Name: name, Files: files})
		n := len(sc.want)
		fmt.Fprintf(&mb, "\tfor _, v := range []int{-1, %d, %d, 1<<62", n, n+1)
		for v := 0; v < n; v++ {
			fmt.Fprintf(&mb, ", %d", v)
		}
		fmt.Fprintf(&mb, "} {\n\t\tfmt.Printf(\"%d %%d %%s\\n\", v, call(%s.TokenToString, v))\n\t}\n", i, name)
	}
	mb.WriteString("}\n")
	r := st3.Run(fmt.Sprintf("c19.%d", c.Shard), pkgs, mb.String(), false, nil)
	if r.Stopped != "" {
		c.Stats.Inconcl++
		c.Stats.Cap("the compiled sample was stopped by the safety net (" + r.Stopped + ")")
		return
	}
	if r.BuildErr != "" {
		c.Stats.HarnessError("stage-3 build for C19: %s", strings.Join(head(strings.Split(r.BuildErr, "\n"), 4), " | "))
		return
	}
	for _, line := range strings.Split(strings.TrimSpace(string(r.Stdout)), "\n") {
		var i, v int
		var got string
		parts := strings.SplitN(line, " ", 3)
		if len(parts) != 3 {
			continue
		}
		fmt.Sscan(parts[0], &i)
		fmt.Sscan(parts[1], &v)
		got = parts[2]
		sc := sample[i]
		want := "???"
		if v >= 0 && v < len(sc.want) {
			want = sc.want[v]
		}
		c.Stats.Add("compiled_tokentostring_calls", 1)
		if got != want {
			raw, _ := json.Marshal(sc.l)
			c.Stats.Violate(mc.Violation{Property: "C19", Check: "C19", Kind: "tokentostring-compiled", Size: len(sc.l.Items), Case: raw,
				Detail: fmt.Sprintf("layout %q: the compiled _TokenToString(%d) returns %q, expected %q (constants %v)", sc.l.Items, v, got, want, sc.want)})
		}
	}
	c.Stats.Add("packages_compiled", int64(len(sample)))
}

// c19Scale: declaring N unused @external names (between the token rules)
// renumbers the constants and must change nothing else: the parser automaton
// lox builds is, read by terminal NAME, the one of the specification without
// them, and every terminal's number is its position. N crosses 2^8 and 2^16:
// numbers that no longer fit a byte or 16 bits.
func c19Scale(c *mc.Ctx, ws *pipe.Workspace) {
	sizes := []int{65600, 250, 300}
	spec := func(n int) *pipe.Spec {
		var b strings.Builder
		b.WriteString("@lexer\nA = 'a'\n")
		for i := 0; i < n; i += 10 {
			b.WriteString("@external")
			for j := i; j < i+10 && j < n; j++ {
				fmt.Fprintf(&b, " X%05d", j+1)
			}
			b.WriteString("\n")
		}
		b.WriteString("B = 'b'\nC = 'c'\n@parser\n@start s = t B | t C | u\nt = A\nu = B t C?\n")
		return &pipe.Spec{Lox: map[string]string{"g.lox": b.String()}}
	}
	// the table read by names: one line per (state, terminal)
	read := func(n int) ([]string, string) {
		front, _ := ws.RunFront(spec(n), false)
		if front.Panic != "" {
			return nil, "lox panicked: " + firstLine(front.Panic)
		}
		if front.V == nil || front.V.Table == nil || front.V.Grammar == nil || !front.OK {
			return nil, "lox did not accept the specification: " + firstLine(front.Diag)
		}
		t := front.V.Table
		for i, term := range front.V.Grammar.Terminals {
			if term.Index != i {
				return nil, fmt.Sprintf("terminal %s has number %d at position %d", term.Name, term.Index, i)
			}
		}
		var lines []string
		for _, st := range t.States {
			am := t.Actions(st)
			for _, term := range am.Terminals() {
				for _, a := range am.Get(term).Elements() {
					lines = append(lines, fmt.Sprintf("I%d on %s: %s", st.Index, term.Name, a.ToString(t.Grammar)))
				}
			}
		}
		sort.Strings(lines)
		return lines, ""
	}
	for i, n := range sizes {
		if !c.Mine(int64(i)) {
			continue
		}
		base, prob := read(0)
		if prob != "" {
			c.Stats.HarnessError("C19 scale baseline: %s", prob)
			return
		}
		got, prob := read(n)
		c.Stats.Evaluations++
		c.Stats.Nontrivial++
		c.Stats.Add("scale_specifications", 1)
		if prob == "" && strings.Join(got, "\n") != strings.Join(base, "\n") {
			prob = "the parser actions, read by terminal name, differ from those of the same specification without the @external names: " + pipe.FirstDiff(strings.Join(got, "\n"), strings.Join(base, "\n"))
		}
		if prob != "" {
			c.Stats.Violate(mc.Violation{Property: "C19", Check: "C19", Kind: "scale", Size: n, Case: mustJSON(map[string]any{"scale_externals": n}),
				Detail: fmt.Sprintf("specification with %d unused @external names declared between the token rules: %s", n, prob)})
		}
	}
}

func c19Worker(c *mc.Ctx) {
	ws := pipe.NewWorkspace("c19")
	defer ws.Close()
	maxLen, split := 5, 4
	if c.Quick() {
		maxLen, split = 4, 3
	}
	var sample []c19Compiled
	seenLen := map[int]int{}
	c19Collect = func(l c19Layout, sp *c19Spec, b *px.Built, want []string) {
		// keep a few layouts of every size
		if seenLen[len(want)] >= 2 || len(sample) >= 10 {
			return
		}
		seenLen[len(want)]++
		sample = append(sample, c19Compiled{l: l, want: want, files: map[string]string{
			"user.go": c19UserGo(sp.g), "base.gen.go": b.Res.Base, "lexer.gen.go": b.Res.Lexer, "parser.gen.go": b.Res.Parser}})
	}
	defer func() {
		c19Collect = nil
		c19RunCompiled(c, sample)
	}()
	c19Scale(c, ws)
	for i, l := range c19Layouts(maxLen, split) {
		if !c.Mine(int64(i)) {
			continue
		}
		if len(c.Stats.Samples) < 3 && i%307 == 33 {
			if sp := l.build(); sp != nil {
				c.Stats.Sample(map[string]any{"layout": l.Items, "split": l.Split, "files": sp.files, "expected_constants": append([]string{"EOF", "ERROR"}, sp.tokens...)})
			}
		}
		l.Hist = &c19Hist{I: i, Shard: c.Shard, NShards: c.NShards, MaxLen: maxLen, SplitUpTo: split}
		for _, v := range c19One(ws, l, &c.Stats) {
			c.Stats.Violate(v)
		}
		if l.Split >= 0 {
			// the same files created in the opposite order
			pipe.ReverseCreate = true
			for _, v := range c19One(ws, l, &c.Stats) {
				v.Kind += "-reverse-creation-order"
				c.Stats.Violate(v)
			}
			pipe.ReverseCreate = false
		}
	}
}

func c19Replay(raw json.RawMessage) *mc.Violation {
	var sc struct {
		N int `json:"scale_externals"`
	}
	if json.Unmarshal(raw, &sc); sc.N > 0 {
		ws := pipe.NewWorkspace("c19r")
		defer ws.Close()
		ctx := &mc.Ctx{NShards: 1, Tier: "thorough"}
		c19Scale(ctx, ws)
		for i := range ctx.Stats.Violations {
			if ctx.Stats.Violations[i].Size == sc.N {
				return &ctx.Stats.Violations[i]
			}
		}
		return nil
	}
	var l c19Layout
	if err := json.Unmarshal(raw, &l); err != nil {
		return &mc.Violation{Property: "C19", Kind: "bad-replay", Detail: err.Error()}
	}
	ws := pipe.NewWorkspace("c19r")
	defer ws.Close()
	ctx := &mc.Ctx{NShards: 1}
	var sample []c19Compiled
	c19Collect = func(l c19Layout, sp *c19Spec, b *px.Built, want []string) {
		sample = append(sample, c19Compiled{l: l, want: want, files: map[string]string{
			"user.go": c19UserGo(sp.g), "base.gen.go": b.Res.Base, "lexer.gen.go": b.Res.Lexer, "parser.gen.go": b.Res.Parser}})
	}
	vs := c19One(ws, l, &ctx.Stats)
	if len(vs) == 0 && l.Split >= 0 {
		pipe.ReverseCreate = true
		vs = c19One(ws, l, &ctx.Stats)
		pipe.ReverseCreate = false
	}
	c19Collect = nil
	if len(vs) == 0 {
		c19RunCompiled(ctx, sample)
		vs = ctx.Stats.Violations
	}
	if len(vs) == 0 && l.Hist != nil && l.Hist.NShards > 0 {
		// Alone, in a fresh process, the layout passes: re-create the history of
		// the worker that reported it (the layouts of its shard, in order).
		h := l.Hist
		hc := &mc.Ctx{Shard: h.Shard, NShards: h.NShards}
		if h.MaxLen > 4 {
			hc.Tier = "thorough"
		}
		c19Scale(hc, ws) // the worker's first generations
		for j, lj := range c19Layouts(h.MaxLen, h.SplitUpTo) {
			if j > h.I {
				break
			}
			if !hc.Mine(int64(j)) {
				continue
			}
			var got []mc.Violation
			got = append(got, c19One(ws, lj, &hc.Stats)...)
			if lj.Split >= 0 {
				pipe.ReverseCreate = true
				got = append(got, c19One(ws, lj, &hc.Stats)...)
				pipe.ReverseCreate = false
			}
			// (the worker's process had also compiled samples and merged counters in
			// between, so the first layout to fail in the re-created history need
			// not be the recorded one: any failure on the way there reproduces the
			// dependence on earlier generations)
			if len(got) > 0 {
				v := got[0]
				v.Kind += "-after-earlier-generations-in-the-process"
				return &v
			}
		}
	}
	if len(vs) == 0 {
		return nil
	}
	return &vs[0]
}

func init() {
	mc.Register(&mc.Check{
		ID:    "C19",
		Level: "exploration",
		Rule: "layouts: every sequence of up to 4 (quick) / 5 (thorough) declaration items from {default-mode token, mode with 0/1/2 tokens, @external with 1/2 names, fragment that @emit()s an earlier token}, at most two modes, each also split into two files at every position (short layouts); the parser references the first, last and a middle name, the rest stay unreferenced; " +
			"read back: const block (names, values dense from EOF=0, ERROR=1, textual order over files in name order), _TokenToString evaluated on its AST, accept parameter of every rule in the decoded mode tables, keys of the decoded parser tables against the reference automaton, and a sentence written with the expected constants run on the real runtime; scale: 250, 300 and 65600 unused @external names between the token rules change nothing but the numbers (parser actions read by terminal name equal those of the specification without them); edit-and-regenerate: every neighbour (two adjacent items exchanged) generated over the layout's own output in the same directory equals a fresh generation; non-trivial = layout with >= 3 names",
		Assume: []string{"expected numbering is computed by the harness from the text it printed", "_TokenToString is evaluated on its AST here; compiled use is exercised by the checked-in parsers (C14) and stage-3 checks"},
		Worker: c19Worker,
		Replay: c19Replay,
	})
}
