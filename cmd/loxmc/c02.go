package main

import (
	"encoding/json"
	"fmt"

	"github.com/dcaiafa/lox/verif/internal/lexref"
	"github.com/dcaiafa/lox/verif/internal/lx"
	"github.com/dcaiafa/lox/verif/internal/mc"
	"github.com/dcaiafa/lox/verif/internal/pipe"
	"github.com/dcaiafa/lox/verif/internal/px"
)

// lexCase is the replay format of the lexer-side checks.
type lexCase struct {
	Family string       `json:"family"`
	Index  int64        `json:"index"`
	Spec   *lexref.Spec `json:"spec"`
	Text   string       `json:"lox"`
	Path   []int        `json:"path,omitempty"`  // runes pushed (-1 = EOF)
	Input  []byte       `json:"input,omitempty"` // byte string through the driver
	L      int          `json:"max_len"`
	Raw    bool         `json:"raw_text,omitempty"` // non-ASCII code points written verbatim in the .lox text
}

func lexCaseJSON(fam string, idx int64, s *lexref.Spec, path []int, input []byte, L int) json.RawMessage {
	b, _ := json.Marshal(lexCase{Family: fam, Index: idx, Spec: s, Text: s.LexerText(), Path: path, Input: input, L: L, Raw: lexref.Raw})
	return b
}

// byteSymbols are the building blocks of driver-level inputs: UTF-8 encodings
// of class-boundary neighbours, multi-byte code points and invalid bytes.
var byteSymbols = [][]byte{
	[]byte("a"), []byte("b"), []byte("c"), []byte("d"), []byte("\n"),
	[]byte("é"), []byte("€"), []byte("😀"), {0x80}, {0xFF}, {0xC3},
}

func forByteStrings(syms [][]byte, L int, f func(in []byte)) {
	var rec func(cur []byte, n int)
	rec = func(cur []byte, n int) {
		f(cur)
		if n == L {
			return
		}
		for _, s := range syms {
			rec(append(cur[:len(cur):len(cur)], s...), n+1)
		}
	}
	rec(nil, 0)
}

// specInDomainC02: greedy operators only, no empty class, no rule matching ε.
func specInDomainC02(c *lexref.Compiled) (bool, string) {
	for _, m := range c.Modes {
		for i := range m.Rules {
			if c.Nullable(m.Init[i]) {
				return false, "nullable-rule"
			}
			if m.Init[i] == 0 {
				return false, "empty-language-rule"
			}
		}
	}
	return true, ""
}

func hasEmptyClass(s *lexref.Spec) bool {
	empty := false
	var walk func(r *lexref.Rx)
	walk = func(r *lexref.Rx) {
		if r.K == lexref.KClass && r.Cls.Set().Empty() {
			empty = true
		}
		for _, k := range r.Kids {
			walk(k)
		}
	}
	for _, m := range s.Modes {
		for _, r := range m.Rules {
			walk(r.Rx)
		}
	}
	for _, m := range s.Macros {
		walk(m.Rx)
	}
	return empty
}

type c02Params struct {
	sets []struct {
		name  string
		rs    *lexref.RuleSets
		limit int64
	}
	L int
}

func c02Families(quick bool) c02Params {
	leaves := lexref.StdLeaves()
	cards := []int{lexref.COpt, lexref.CStar, lexref.CPlus}
	p1, p2, p3 := lexref.NewPool(leaves, cards, 1), lexref.NewPool(leaves, cards, 2), lexref.NewPool(leaves, cards, 3)
	p4 := lexref.NewPool(leaves, cards, 4)
	type fam = struct {
		name  string
		rs    *lexref.RuleSets
		limit int64
	}
	if quick {
		return c02Params{sets: []fam{
			{"r1-s3", &lexref.RuleSets{Pools: []*lexref.Pool{p3}, Kinds: 2}, 0},
			{"r1-s4", &lexref.RuleSets{Pools: []*lexref.Pool{p4}, Kinds: 2}, 0},
			{"r2-s2", &lexref.RuleSets{Pools: []*lexref.Pool{p2, p2}, Kinds: 2}, 0},
			{"r2-s3s1", &lexref.RuleSets{Pools: []*lexref.Pool{p3, p1}, Kinds: 2}, 0},
			{"r3-s1", &lexref.RuleSets{Pools: []*lexref.Pool{p1, p1, p1}, Kinds: 2}, 0},
		}, L: 3}
	}
	return c02Params{sets: []fam{
		{"r1-s4", &lexref.RuleSets{Pools: []*lexref.Pool{p4}, Kinds: 2}, 0},
		{"r1-s5", &lexref.RuleSets{Pools: []*lexref.Pool{lexref.NewPool(leaves, cards, 5)}, Kinds: 2}, 60000},
		{"r2-s2", &lexref.RuleSets{Pools: []*lexref.Pool{p2, p2}, Kinds: 2}, 0},
		{"r2-s3", &lexref.RuleSets{Pools: []*lexref.Pool{p3, p3}, Kinds: 2}, 300000},
		{"r2-s3s2-rev", &lexref.RuleSets{Pools: []*lexref.Pool{p2, p3}, Kinds: 2}, 0},
		{"r3-s2s1", &lexref.RuleSets{Pools: []*lexref.Pool{p2, p2, p1}, Kinds: 2}, 300000},
	}, L: 4}
}

// c02One checks one specification: product search, then driver-level strings.
func c02One(ws *pipe.Workspace, fam string, idx int64, s *lexref.Spec, L int, st *mc.Stats, property string, inDomain func(c *lexref.Compiled) (bool, string)) []mc.Violation {
	var out []mc.Violation
	if hasEmptyClass(s) {
		st.Add("skipped_empty_class", 1)
		return nil
	}
	b := lx.Build(ws, s, "")
	switch b.Status {
	case lx.Rejected:
		st.Add("specs_rejected", 1)
		st.Note("rejected: " + firstLine(b.Res.Diag) + " e.g. {" + s.OneLine() + "}")
		return nil
	case lx.Panicked:
		return []mc.Violation{{Property: "C12", Check: property, Kind: "generator-panic", Size: len(s.OneLine()),
			Case: lexCaseJSON(fam, idx, s, nil, nil, L), Detail: "generator panicked on {" + s.OneLine() + "}: " + firstLine(b.Res.Panic)}}
	case lx.Broken:
		st.HarnessError("spec {%s}: %s", s.OneLine(), b.Problem)
		return nil
	}
	if ok, why := inDomain(b.C); !ok {
		st.Add("skipped_"+why, 1)
		return nil
	}
	st.Evaluations++
	st.Validated++
	if b.ModeCountProblem != "" {
		out = append(out, mc.Violation{Property: "C10", Check: property, Kind: "mode-tables-missing", Size: len(s.OneLine()),
			Case: lexCaseJSON(fam, idx, s, nil, nil, L), Detail: "spec {" + s.OneLine() + "}: " + b.ModeCountProblem})
	}
	// C10 rides along: decoded table structure and equality with the DFA object.
	if prob := checkLexTables(b); prob != "" {
		out = append(out, mc.Violation{Property: "C10", Check: property, Kind: "lexer-table", Size: len(s.OneLine()),
			Case: lexCaseJSON(fam, idx, s, nil, nil, L), Detail: "spec {" + s.OneLine() + "}: " + prob})
	}
	pr := lx.Product(b, px.NB, lx.ProductOpts{MaxDepth: 3, StopAtError: true, CompareEvents: true})
	st.States += int64(pr.States)
	st.Transitions += int64(pr.Transitions)
	if pr.StateCapped {
		st.Cap("product search state cap reached for some specification")
	}
	for _, mm := range pr.Mismatches {
		out = append(out, mc.Violation{Property: property, Check: property, Kind: "product-" + mm.Kind, Size: len(s.OneLine())*100 + len(mm.Path),
			Case:   lexCaseJSON(fam, idx, s, mm.Path, nil, L),
			Detail: fmt.Sprintf("spec {%s} after pushing %s: %s", s.OneLine(), mm.PathText(), mm.Detail)})
	}
	if len(out) > 0 {
		return out
	}
	if pr.States > 3 {
		st.Nontrivial++
	}
	// Driver level: byte strings through the real simplelexer.
	b.Install(px.NB)
	nbad := 0
	forByteStrings(byteSymbols, L, func(in []byte) {
		if nbad > 0 {
			return
		}
		st.Add("driver_inputs", 1)
		got, stuck, pmsg := lx.ImplTokensGuard(px.NB, b, in, true, 4*len(in)+8)
		want := lx.RefTokens(b, in, nil)
		if pmsg != "" || stuck || !lx.SameToks(got, want) {
			nbad++
			cp := append([]byte(nil), in...)
			out = append(out, mc.Violation{Property: property, Check: property, Kind: "driver-tokens", Size: len(s.OneLine())*100 + len(in),
				Case:   lexCaseJSON(fam, idx, s, nil, cp, L),
				Detail: fmt.Sprintf("spec {%s} input %q: driver produced %v (stuck=%v panic=%q), the rules define %v", s.OneLine(), in, got, stuck, pmsg, want)})
		}
	})
	return out
}

// rangeAlgebraSpec: nr rules, rule r is one range over the points a..f (the
// first rule followed by '!' so that it does not simply shadow the others):
// every way ranges can nest, overlap, coincide with the remainder of a split
// and be split again.
func rangeAlgebraSpec(i int64, nr int, top rune, mult int) *lexref.Spec {
	var rgs [][2]int
	for lo := 'a'; lo <= top; lo++ {
		for hi := lo; hi <= top; hi++ {
			rgs = append(rgs, [2]int{int(lo), int(hi)})
		}
	}
	s := &lexref.Spec{Modes: []lexref.Mode{{}}}
	k := i
	for r := 0; r < nr; r++ {
		rg := rgs[k%int64(len(rgs))]
		k /= int64(len(rgs))
		rx := lexref.Cls(&lexref.Class{Items: []lexref.ClassItem{lexref.Range(rg[0], rg[1])}})
		if r == 0 {
			// the first rule's range is written mult times (so that several NFA
			// states own the same range), then '!'
			parts := []*lexref.Rx{}
			for k := 0; k < mult; k++ {
				parts = append(parts, lexref.Cls(&lexref.Class{Items: []lexref.ClassItem{lexref.Range(rg[0], rg[1])}}))
			}
			rx = lexref.Cat(append(parts, lexref.Lit("!"))...)
		}
		s.Modes[0].Rules = append(s.Modes[0].Rules, lexref.Rule{K: lexref.RToken, Name: fmt.Sprintf("T%d", r+1), Rx: rx})
	}
	return s
}

func rangeAlgebraSize(nr int, top rune) int64 {
	k := int64(top-'a') + 1
	n := int64(1)
	for r := 0; r < nr; r++ {
		n *= k * (k + 1) / 2
	}
	return n
}

// rangeAlgebraFamilies: (rules, last point, multiplicity of the first rule's
// range). Quick: 3 ranges over a..f, 4 over a..e, and 4 over a..e with the first
// range written three times; thorough: 4 over a..f, 5 over a..d, both also with
// multiplicity.
func rangeAlgebraFamilies(quick bool) [][3]int {
	if quick {
		return [][3]int{{3, 'f', 1}, {4, 'e', 1}, {4, 'e', 3}}
	}
	return [][3]int{{4, 'f', 1}, {5, 'd', 1}, {4, 'f', 3}, {5, 'd', 2}}
}

func rangeAlgebraRun(c *mc.Ctx, ws *pipe.Workspace, property string, inDomain func(c *lexref.Compiled) (bool, string)) {
	for _, f := range rangeAlgebraFamilies(c.Quick()) {
		nr, top, mult := f[0], rune(f[1]), f[2]
		for i := int64(0); i < rangeAlgebraSize(nr, top); i++ {
			if !c.Mine(i) {
				continue
			}
			for _, v := range c02One(ws, fmt.Sprintf("range-algebra-%d-%c-x%d", nr, top, mult), i, rangeAlgebraSpec(i, nr, top, mult), 1, &c.Stats, property, inDomain) {
				c.Stats.Violate(v)
			}
		}
	}
}

// macroRun: the macro family (lexref.MacroSpec): bodies from the pool of size
// <= 2 (thorough: 3), second expression from the pool of size 1 (thorough: 2).
func macroRun(c *mc.Ctx, ws *pipe.Workspace, property string, inDomain func(c *lexref.Compiled) (bool, string), L int) {
	leaves := lexref.StdLeaves()
	cards := []int{lexref.COpt, lexref.CStar, lexref.CPlus}
	a, b := lexref.NewPool(leaves, cards, 2), lexref.NewPool(leaves, cards, 1)
	if !c.Quick() {
		a, b = lexref.NewPool(leaves, cards, 3), lexref.NewPool(leaves, cards, 2)
	}
	n := int64(len(a.All)) * int64(len(b.All)) * lexref.MacroShapes
	for i := int64(0); i < n; i++ {
		if !c.Mine(i) {
			continue
		}
		for _, v := range c02One(ws, "macros", i, lexref.MacroSpec(a, b, i), L, &c.Stats, property, inDomain) {
			c.Stats.Violate(v)
		}
	}
}

// wideLiterals: literals whose characters need 2, 3 and 4 bytes of UTF-8,
// together with the Latin-1 characters that equal their lead bytes and the
// code points at the edges of each encoding length.
var wideLiterals = [][]int{
	{0xE9}, {0xC3}, {0xEA}, {0x20AC}, {0x2192}, {0xE2}, {0x1F600}, {0xF0},
	{0x80}, {0x7FF}, {0x800}, {0xFFFF}, {0x10000}, {0x10FFFF},
	{'a', 0xE9}, {0xE9, 'a'}, {0xE9, 0x20AC}, {0x20AC, 0xE9}, {0xC3, 0xA9},
}

// wideLiteralRun: every specification of 1, 2 (thorough: 3) token rules that
// are each one of wideLiterals, in every order, written as escapes and
// verbatim.
func wideLiteralRun(c *mc.Ctx, ws *pipe.Workspace, property string, inDomain func(c *lexref.Compiled) (bool, string)) {
	n := int64(len(wideLiterals))
	maxRules := 2
	if !c.Quick() {
		maxRules = 3
	}
	idx := int64(0)
	for nr := 1; nr <= maxRules; nr++ {
		total := int64(1)
		for i := 0; i < nr; i++ {
			total *= n
		}
		for i := int64(0); i < total; i++ {
			idx++
			if !c.Mine(idx) {
				continue
			}
			s := &lexref.Spec{Modes: []lexref.Mode{{}}}
			k := i
			seen := map[int64]bool{}
			dup := false
			for r := 0; r < nr; r++ {
				if seen[k%n] {
					dup = true
				}
				seen[k%n] = true
				s.Modes[0].Rules = append(s.Modes[0].Rules, lexref.Rule{K: lexref.RToken, Name: fmt.Sprintf("T%d", r+1), Rx: lexref.LitCP(wideLiterals[k%n]...)})
				k /= n
			}
			if dup {
				continue
			}
			for _, raw := range []bool{false, true} {
				lexref.Raw = raw
				vs := c02One(ws, fmt.Sprintf("wide-literals-%d", nr), i, s, 2, &c.Stats, property, inDomain)
				lexref.Raw = false
				for _, v := range vs {
					c.Stats.Violate(v)
				}
			}
		}
	}
}

func c02Worker(c *mc.Ctx) {
	prm := c02Families(c.Quick())
	ws := pipe.NewWorkspace("c02")
	defer ws.Close()
	rangeAlgebraRun(c, ws, "C02", specInDomainC02)
	wideLiteralRun(c, ws, "C02", specInDomainC02)
	macroRun(c, ws, "C02", specInDomainC02, prm.L)
	nullableLoopRun(c, ws, "C02", specInDomainC02, prm.L)
	for _, fam := range prm.sets {
		n := fam.rs.Size()
		if fam.limit > 0 && fam.limit < n {
			c.Stats.Cap(fmt.Sprintf("%s: first %d of %d rule sets in canonical order", fam.name, fam.limit, n))
			n = fam.limit
		}
		for i := int64(0); i < n; i++ {
			if !c.Mine(i) {
				continue
			}
			s := fam.rs.Get(i)
			if len(c.Stats.Samples) < 3 && i > 50 {
				c.Stats.Sample(map[string]any{"family": fam.name, "spec": s.OneLine(), "driver_strings_up_to_symbols": prm.L})
			}
			for _, v := range c02One(ws, fam.name, i, s, prm.L, &c.Stats, "C02", specInDomainC02) {
				c.Stats.Violate(v)
			}
		}
	}
}

func lexReplay(property string, inDomain func(c *lexref.Compiled) (bool, string)) func(raw json.RawMessage) *mc.Violation {
	return func(raw json.RawMessage) *mc.Violation {
		var lc lexCase
		if err := json.Unmarshal(raw, &lc); err != nil {
			return &mc.Violation{Property: property, Kind: "bad-replay", Detail: err.Error()}
		}
		ws := pipe.NewWorkspace("lexr")
		defer ws.Close()
		var st mc.Stats
		lexref.Raw = lc.Raw
		defer func() { lexref.Raw = false }()
		vs := c02One(ws, lc.Family, lc.Index, lc.Spec, lc.L, &st, property, inDomain)
		if len(vs) == 0 {
			return nil
		}
		return &vs[0]
	}
}

func init() {
	mc.Register(&mc.Check{
		ID:    "C02",
		Level: "model_checking",
		Rule: "rule sets: every specification of 1-3 rules (token or @frag @discard; single rules up to 4 nodes in the quick tier) whose expressions are drawn from the pool of all regexes up to a size bound over the leaves {'a','b','ab',[a],[ab],[a-c],~[a],[a-c]-[b],.} with ? * + | concatenation and grouping (counter-enumerated); kept if greedy, no empty class, no rule matching the empty string; " +
			"plus the wide-literal family: every specification of 1-2 (thorough: 3) rules that are each a literal of 2-, 3- and 4-byte code points (and the Latin-1 characters equal to their lead bytes, and the edges of each encoding length), written as escapes and verbatim; " +
			"plus the range-algebra family: every specification of 3 rules that are each one range over the points a..f and of 4 rules over a..e (thorough: 4 over a..f, 5 over a..d), i.e. every way ranges nest, overlap, coincide with the remainder of a split and are split again, in every order; and the macro family: @macro bodies from the pool, used in two rules, twice in one rule, nested in a second macro, under ? * +, in a discarding fragment; " +
			"each: breadth-first search of the product (real _LexerStateMachine with the spec's emitted tables) x (tuple of Brzozowski derivatives) over both end points and a middle point of every atom of the spec's classes plus EOF - a finite graph, so event streams agree for inputs of every length up to the first error; " +
			"then every string of up to L symbols (ASCII, 2/3/4-byte code points, invalid UTF-8 bytes) through the real simplelexer driver, comparing token type, text span and position; states/transitions = product nodes/edges; non-trivial = spec with > 3 product states",
		Assume: []string{"reference: internal/lexref (derivatives over atoms, longest viable run, earliest declared rule)", "the product abstracts byte offsets; the driver-level strings cover them up to the length bound"},
		Worker: c02Worker,
		Replay: lexReplay("C02", specInDomainC02),
	})
}

// nullableLoopSpecs: a repetition (* or +) of a sequence of two (thorough:
// also three) terms that can each match the empty string - x?, x*, a class
// under ? - between an optional prefix and an optional suffix, alone or before
// a second greedy rule. In the NFA these are cycles made of epsilon edges only,
// entered at different points depending on what was read before: the shapes of
// `[a-z] ([a-z]* '_'?)*` and `'<' ('a'? 'b'?)* '>'`.
func nullableLoopSpecs(quick bool) []*lexref.Spec {
	ab := &lexref.Class{Items: []lexref.ClassItem{lexref.Range('a', 'b')}}
	atoms := []func() *lexref.Rx{
		func() *lexref.Rx { return lexref.Rep(lexref.Lit("a"), lexref.COpt) },
		func() *lexref.Rx { return lexref.Rep(lexref.Lit("b"), lexref.COpt) },
		func() *lexref.Rx { return lexref.Rep(lexref.Lit("a"), lexref.CStar) },
		func() *lexref.Rx { return lexref.Rep(lexref.Lit("b"), lexref.CStar) },
		func() *lexref.Rx { return lexref.Rep(lexref.Cls(ab), lexref.COpt) },
		func() *lexref.Rx { return lexref.Rep(lexref.Lit("ab"), lexref.COpt) },
	}
	var bodies []*lexref.Rx
	for i := range atoms {
		for j := range atoms {
			bodies = append(bodies, lexref.Cat(atoms[i](), atoms[j]()))
			if !quick {
				for k := range atoms {
					bodies = append(bodies, lexref.Cat(atoms[i](), atoms[j](), atoms[k]()))
				}
			}
		}
	}
	abc := &lexref.Class{Items: []lexref.ClassItem{lexref.Range('a', 'c')}}
	ad := &lexref.Class{Items: []lexref.ClassItem{lexref.Range('a', 'd')}}
	prefixes := []func() *lexref.Rx{nil, func() *lexref.Rx { return lexref.Lit("c") }, func() *lexref.Rx { return lexref.Cls(abc) }}
	suffixes := []func() *lexref.Rx{nil, func() *lexref.Rx { return lexref.Lit("d") }, func() *lexref.Rx { return lexref.Lit("a") }}
	var out []*lexref.Spec
	for _, body := range bodies {
		for _, card := range []int{lexref.CStar, lexref.CPlus} {
			for _, pre := range prefixes {
				for _, suf := range suffixes {
					var parts []*lexref.Rx
					if pre != nil {
						parts = append(parts, pre())
					}
					parts = append(parts, lexref.Rep(body, card))
					if suf != nil {
						parts = append(parts, suf())
					}
					rx := parts[0]
					if len(parts) > 1 {
						rx = lexref.Cat(parts...)
					}
					for second := 0; second < 2; second++ {
						s := &lexref.Spec{Modes: []lexref.Mode{{}}}
						s.Modes[0].Rules = append(s.Modes[0].Rules, lexref.Rule{K: lexref.RToken, Name: "T1", Rx: rx})
						if second == 1 {
							s.Modes[0].Rules = append(s.Modes[0].Rules, lexref.Rule{K: lexref.RToken, Name: "T2", Rx: lexref.Rep(lexref.Cls(ad), lexref.CPlus)})
						}
						out = append(out, s)
					}
				}
			}
		}
	}
	return out
}

func nullableLoopRun(c *mc.Ctx, ws *pipe.Workspace, property string, inDomain func(c *lexref.Compiled) (bool, string), L int) {
	for i, s := range nullableLoopSpecs(c.Quick()) {
		if !c.Mine(int64(i)) {
			continue
		}
		for _, v := range c02One(ws, "nullable-loops", int64(i), s, L, &c.Stats, property, inDomain) {
			c.Stats.Violate(v)
		}
	}
}
