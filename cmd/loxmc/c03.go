package main

import (
	"encoding/json"
	"fmt"
	"github.com/dcaiafa/lox/verif/internal/px"
	"sort"
	"strings"
	"sync"

	"github.com/dcaiafa/lox/verif/internal/cfgref"
	"github.com/dcaiafa/lox/verif/internal/gen"
	"github.com/dcaiafa/lox/verif/internal/mc"
	"github.com/dcaiafa/lox/verif/internal/pipe"
	"github.com/dcaiafa/lox/verif/internal/st3"
)

// ---------------------------------------------------------------------------
// User package for stage 3: every rule has its own Go result type, every
// signature group of a rule has one logging action method.

func c03BaseType(g *gen.Grammar, s gen.Sym) string {
	switch s.K {
	case gen.T:
		return "Token"
	case gen.N:
		return "*N_" + g.Rules[s.I].Name
	}
	return "Error"
}

func c03TermType(g *gen.Grammar, t gen.Term) string {
	b := c03BaseType(g, t.X)
	switch t.S {
	case gen.Plain, gen.Opt:
		return b
	}
	return "[]" + b
}

// c03Methods assigns a method name to every alternative: alternatives of one
// rule with identical parameter types share a method.
func c03Methods(g *gen.Grammar) (names [][]string, sigs map[string][]string) {
	sigs = map[string][]string{}
	for _, r := range g.Rules {
		var row []string
		seen := map[string]string{}
		for _, a := range r.Alts {
			var ps []string
			for _, t := range a.Terms {
				ps = append(ps, c03TermType(g, t))
			}
			k := strings.Join(ps, ",")
			m, ok := seen[k]
			if !ok {
				m = fmt.Sprintf("on_%s__%d", r.Name, len(seen))
				seen[k] = m
				sigs[m] = ps
			}
			row = append(row, m)
		}
		names = append(names, row)
	}
	return
}

// ptrDiscard: Token's Discard() is declared on the pointer receiver (the
// elements of `A*!` are still Token values; lox accepts that).
func c03UserGo(g *gen.Grammar, pkg string, ptrDiscard bool) string {
	var b strings.Builder
	fmt.Fprintf(&b, "package %s\n\nimport (\n\t\"fmt\"\n\t\"reflect\"\n\t\"strings\"\n)\n\n", pkg)
	b.WriteString(`type Token struct {
	Type int
	Idx  int
}

func (t TOKRECV) Discard() bool { return t.Idx%2 == 1 }

type node struct {
	ID    int
	First int
}

type noder interface {
	nodeInfo() (id int, first int, isNil bool)
}

type parser struct {
	lox
	trace  []string
	nextID int
}

func first(v any) int {
	switch x := v.(type) {
	case Token:
		return x.Idx
	case Error:
		return -1
	case noder:
		_, f, isNil := x.nodeInfo()
		if isNil {
			return -1
		}
		return f
	}
	rv := reflect.ValueOf(v)
	if rv.IsValid() && rv.Kind() == reflect.Slice {
		for i := 0; i < rv.Len(); i++ {
			if f := first(rv.Index(i).Interface()); f >= 0 {
				return f
			}
		}
	}
	return -1
}

func show(v any) string {
	switch x := v.(type) {
	case Token:
		return fmt.Sprintf("t%d@%d", x.Type, x.Idx)
	case Error:
		return fmt.Sprintf("err@%d", x.Token.Idx)
	case noder:
		id, _, isNil := x.nodeInfo()
		if isNil {
			return "nil"
		}
		return fmt.Sprintf("n%d", id)
	}
	rv := reflect.ValueOf(v)
	if rv.IsValid() && rv.Kind() == reflect.Slice {
		var parts []string
		for i := 0; i < rv.Len(); i++ {
			parts = append(parts, show(rv.Index(i).Interface()))
		}
		return "[" + strings.Join(parts, " ") + "]"
	}
	return fmt.Sprintf("?%T", v)
}

func (p *parser) rec(method string, args ...any) node {
	n := node{ID: p.nextID, First: -1}
	p.nextID++
	var parts []string
	for _, a := range args {
		parts = append(parts, show(a))
		if n.First < 0 {
			n.First = first(a)
		}
	}
	p.trace = append(p.trace, fmt.Sprintf("%s(%s)->n%d", method, strings.Join(parts, ", "), n.ID))
	return n
}

type sliceLexer struct {
	toks []int
	pos  int
}

func (l *sliceLexer) ReadToken() (Token, int) {
	if l.pos >= len(l.toks) {
		return Token{Type: EOF, Idx: len(l.toks)}, EOF
	}
	t := Token{Type: l.toks[l.pos], Idx: l.pos}
	l.pos++
	return t, t.Type
}

// Run parses one token sequence and returns the verdict, the log of action
// calls and the value returned by the start rule's action.
func Run(toks []int) (ok bool, trace []string, panicked string) {
	p := &parser{}
	defer func() {
		if x := recover(); x != nil {
			panicked = fmt.Sprint(x)
			trace = p.trace
		}
	}()
	ok = p.parse(&sliceLexer{toks: toks})
	return ok, p.trace, ""
}

`)
	for _, r := range g.Rules {
		fmt.Fprintf(&b, "type N_%s struct{ node }\n\n", r.Name)
		fmt.Fprintf(&b, "func (n *N_%s) nodeInfo() (int, int, bool) {\n\tif n == nil {\n\t\treturn 0, -1, true\n\t}\n\treturn n.ID, n.First, false\n}\n\n", r.Name)
		fmt.Fprintf(&b, "func (n *N_%s) Discard() bool { return n != nil && n.First >= 0 && n.First%%2 == 1 }\n\n", r.Name)
	}
	names, sigs := c03Methods(g)
	done := map[string]bool{}
	for ri, r := range g.Rules {
		for ai := range r.Alts {
			m := names[ri][ai]
			if done[m] {
				continue
			}
			done[m] = true
			var ps, as []string
			for i, t := range sigs[m] {
				ps = append(ps, fmt.Sprintf("a%d %s", i, t))
				as = append(as, fmt.Sprintf("a%d", i))
			}
			args := ""
			if len(as) > 0 {
				args = ", " + strings.Join(as, ", ")
			}
			fmt.Fprintf(&b, "func (p *parser) %s(%s) *N_%s {\n\treturn &N_%s{p.rec(%q%s)}\n}\n\n", m, strings.Join(ps, ", "), r.Name, r.Name, m, args)
		}
	}
	recv := "Token"
	if ptrDiscard {
		recv = "*Token"
	}
	return strings.Replace(b.String(), "TOKRECV", recv, 1)
}

// ---------------------------------------------------------------------------
// Reference: expected action log from the derivation tree.

type c03Val struct {
	kind  string // "tok" "node" "nil" "list" "zerotok" "err"
	typ   int    // tok: lox terminal index
	idx   int    // tok: input index
	id    int    // node id
	first int
	elems []c03Val
}

func (v c03Val) show() string {
	switch v.kind {
	case "tok":
		return fmt.Sprintf("t%d@%d", v.typ, v.idx)
	case "zerotok":
		return "t0@0"
	case "node":
		return fmt.Sprintf("n%d", v.id)
	case "nil":
		return "nil"
	case "list":
		var p []string
		for _, e := range v.elems {
			p = append(p, e.show())
		}
		return "[" + strings.Join(p, " ") + "]"
	}
	return "?"
}

func (v c03Val) firstIdx() int {
	switch v.kind {
	case "tok":
		return v.idx
	case "zerotok":
		return 0 // Token{}.Idx
	case "node":
		return v.first
	case "list":
		for _, e := range v.elems {
			if f := e.firstIdx(); f >= 0 {
				return f
			}
		}
	}
	return -1
}

func (v c03Val) discard() bool {
	switch v.kind {
	case "tok":
		return v.idx%2 == 1
	case "node":
		return v.first >= 0 && v.first%2 == 1
	}
	return false
}

type c03Ref struct {
	g      *gen.Grammar
	cfg    *cfgref.CFG
	names  [][]string
	trace  []string
	nextID int
}

func (r *c03Ref) eval(t *cfgref.Tree) c03Val {
	c := r.cfg
	if t.Prod < 0 {
		return c03Val{kind: "tok", typ: t.Sym - cfgref.TokOff + 2, idx: t.Tok}
	}
	p := c.Prods[t.Prod]
	nt := t.Sym - c.NT
	if ri := c.UserRule[nt]; ri >= 0 {
		var args []c03Val
		for _, k := range t.Kids {
			args = append(args, r.eval(k))
		}
		v := c03Val{kind: "node", id: r.nextID, first: -1}
		r.nextID++
		var parts []string
		for _, a := range args {
			parts = append(parts, a.show())
			if v.first < 0 {
				v.first = a.firstIdx()
			}
		}
		r.trace = append(r.trace, fmt.Sprintf("%s(%s)->n%d", r.names[p.Rule][p.Alt], strings.Join(parts, ", "), v.id))
		return v
	}
	h := c.Helper[nt]
	switch h.Kind {
	case gen.Opt:
		if len(t.Kids) == 1 {
			return r.eval(t.Kids[0])
		}
		if c.IsTerm(h.X) {
			return c03Val{kind: "zerotok"}
		}
		return c03Val{kind: "nil"}
	case gen.Plus:
		// x+ = x+ x | x   (also the filtered x+! helper; filtering is applied by the caller's kind)
		filtered := strings.HasSuffix(c.Names[t.Sym], "+!")
		var l c03Val
		var e c03Val
		if len(t.Kids) == 2 {
			l = r.eval(t.Kids[0])
			e = r.eval(t.Kids[1])
		} else {
			l = c03Val{kind: "list"}
			e = r.eval(t.Kids[0])
		}
		if !(filtered && e.discard()) {
			l.elems = append(l.elems, e)
		}
		return l
	case gen.Star, gen.StarF, gen.ListOpt:
		if len(t.Kids) == 1 {
			return r.eval(t.Kids[0])
		}
		return c03Val{kind: "list"}
	case gen.List:
		if len(t.Kids) == 3 {
			l := r.eval(t.Kids[0])
			r.eval(t.Kids[1]) // separator: evaluated (its actions run) but not delivered
			l.elems = append(l.elems, r.eval(t.Kids[2]))
			return l
		}
		return c03Val{kind: "list", elems: []c03Val{r.eval(t.Kids[0])}}
	}
	panic("unknown helper")
}

// ---------------------------------------------------------------------------
// Family.

func tk(i int) gen.Sym { return gen.Sym{K: gen.T, I: i} }
func nt(i int) gen.Sym { return gen.Sym{K: gen.N, I: i} }

// tokens: 0=X 1=Y (element material) 2=Z 3=W (fillers) 4=C (separator) 5=P (prefix)
var c03Toks = []string{"X", "Y", "Z", "W", "C", "P"}

func c03Family(quick bool) []*gen.Grammar {
	var out []*gen.Grammar
	elemRule := gen.Rule{Name: "a", Alts: []gen.Alt{
		{Terms: []gen.Term{{X: tk(0)}}},
		{Terms: []gen.Term{{X: tk(1)}, {X: tk(0)}}},
	}}
	sugars := []int{gen.Opt, gen.Star, gen.Plus, gen.StarF, gen.List, gen.ListOpt}
	hosts := [][]int{{0}, {0, 2}, {2, 0}, {2, 0, 3}, {0, 2, 3}, {2, 3, 0}, {2, 0, 3, 2}} // 0 = the sugared term, n = filler token index
	mkTerm := func(s int, x gen.Sym) gen.Term {
		t := gen.Term{S: s, X: x}
		if s == gen.List || s == gen.ListOpt {
			t.Sep = tk(4)
		}
		return t
	}
	host := func(pattern []int, st gen.Term) []gen.Term {
		var ts []gen.Term
		for _, p := range pattern {
			if p == 0 {
				ts = append(ts, st)
			} else {
				ts = append(ts, gen.Term{X: tk(p)})
			}
		}
		return ts
	}
	for _, elem := range []gen.Sym{tk(0), nt(1)} {
		for _, s := range sugars {
			for _, h := range hosts {
				g := &gen.Grammar{Toks: c03Toks}
				g.Rules = []gen.Rule{{Name: "s", Alts: []gen.Alt{{Terms: host(h, mkTerm(s, elem))}}}, elemRule}
				if elem.K == gen.T {
					// keep rule a reachable so that the two families have the same shape
					g.Rules[0].Alts = append(g.Rules[0].Alts, gen.Alt{Terms: []gen.Term{{X: tk(5)}, {X: nt(1)}}})
				}
				out = append(out, g)
			}
		}
	}
	// nested one level: b = P <inner sugar>, used under an outer sugar in s
	nh := [][]int{{0}, {2, 0, 3}, {2, 3, 0}}
	for _, elem := range []gen.Sym{tk(0), nt(1)} {
		for _, outer := range sugars {
			for _, inner := range sugars {
				for hi, h := range nh {
					if quick && (hi != 1 || (outer+inner)%2 == 1) {
						continue
					}
					g := &gen.Grammar{Toks: c03Toks}
					bRule := gen.Rule{Name: "b", Alts: []gen.Alt{{Terms: []gen.Term{{X: tk(5)}, mkTerm(inner, elem)}}}}
					g.Rules = []gen.Rule{{Name: "s", Alts: []gen.Alt{{Terms: host(h, mkTerm(outer, nt(2)))}}}, elemRule, bRule}
					if elem.K == gen.T {
						g.Rules[0].Alts = append(g.Rules[0].Alts, gen.Alt{Terms: []gen.Term{{X: tk(3)}, {X: nt(1)}}})
					}
					out = append(out, g)
				}
			}
		}
	}
	// two different tokens under sugar in one grammar, referenced by name and by literal alias
	for _, s1 := range sugars {
		for _, s2 := range sugars {
			if quick && (s1+s2)%3 != 0 {
				continue
			}
			for _, alias := range []bool{false, true} {
				g := &gen.Grammar{Toks: c03Toks, AliasRefs: alias}
				g.Rules = []gen.Rule{{Name: "s", Alts: []gen.Alt{
					{Terms: []gen.Term{{X: tk(5)}, mkTerm(s1, tk(0)), {X: tk(2)}, mkTerm(s2, tk(1))}},
					{Terms: []gen.Term{{X: tk(3)}, mkTerm(s2, tk(1)), {X: tk(2)}, {X: nt(1)}}},
				}}, elemRule}
				out = append(out, g)
			}
		}
	}
	// two sugared terms ADJACENT to each other (an empty one sits right above the
	// other's value on the parse stack), same and different element types
	for _, s1 := range sugars {
		for _, s2 := range sugars {
			if quick && (s1*7+s2)%4 != 0 {
				continue
			}
			g := &gen.Grammar{Toks: c03Toks}
			g.Rules = []gen.Rule{{Name: "s", Alts: []gen.Alt{
				{Terms: []gen.Term{{X: tk(5)}, mkTerm(s1, tk(0)), mkTerm(s2, tk(1)), {X: tk(2)}}},
				{Terms: []gen.Term{{X: tk(3)}, mkTerm(s2, tk(1)), mkTerm(s1, tk(2))}},
				{Terms: []gen.Term{{X: tk(2)}, mkTerm(s1, nt(1)), mkTerm(s2, tk(3))}},
			}}, elemRule}
			out = append(out, g)
			// first term of its production: what lies below is the symbol before the enclosing rule
			g2 := &gen.Grammar{Toks: c03Toks}
			g2.Rules = []gen.Rule{{Name: "s", Alts: []gen.Alt{
				{Terms: []gen.Term{mkTerm(s1, tk(0)), {X: nt(2)}}},
			}}, elemRule, {Name: "b", Alts: []gen.Alt{{Terms: []gen.Term{mkTerm(s2, tk(1)), mkTerm(s2, tk(2)), {X: tk(3)}}}}}}
			g2.Rules[0].Alts = append(g2.Rules[0].Alts, gen.Alt{Terms: []gen.Term{{X: tk(5)}, {X: nt(1)}}})
			out = append(out, g2)
		}
	}
	// every grammar built so far also with tokens referenced by literal alias (thorough)
	if !quick {
		n := len(out)
		for i := 0; i < n; i++ {
			if !out[i].AliasRefs {
				c := out[i].Clone()
				c.AliasRefs = true
				out = append(out, c)
			}
		}
	}
	// two sugared terms in one alternative, and a sugared rule shared by two alternatives
	for _, s1 := range sugars {
		for _, s2 := range []int{gen.Opt, gen.Plus, gen.List} {
			g := &gen.Grammar{Toks: c03Toks}
			g.Rules = []gen.Rule{{Name: "s", Alts: []gen.Alt{
				{Terms: []gen.Term{mkTerm(s1, nt(1)), {X: tk(2)}, mkTerm(s2, tk(0))}},
				{Terms: []gen.Term{{X: tk(3)}, mkTerm(s1, nt(1))}},
			}}, elemRule}
			out = append(out, g)
		}
	}
	return out
}

type c03Case struct {
	Grammar *gen.Grammar `json:"grammar"`
	Text    string       `json:"lox"`
	Input   []int        `json:"input"`
}

type c03Out struct {
	Pkg      string   `json:"pkg"`
	In       []int    `json:"in"`
	OK       bool     `json:"ok"`
	Trace    []string `json:"trace"`
	Panicked string   `json:"panic"`
}

// c03Batch generates, compiles and runs a batch of grammars.
func c03Batch(tag string, gs []*gen.Grammar, L int, st *mc.Stats, mu *sync.Mutex) []mc.Violation {
	ws := pipe.NewWorkspace("c03" + tag)
	defer ws.Close()
	var out []mc.Violation
	type job struct {
		g      *gen.Grammar
		pkg    string
		inputs [][]int
		expect map[string][]string
	}
	var jobs []*job
	var pkgs []st3.Pkg
	// a grammar with a `*!` term is run twice: Discard() on the value receiver of
	// Token and on the pointer receiver (same documented filtering either way)
	var ptrVariant []bool
	{
		var all []*gen.Grammar
		for _, g := range gs {
			all = append(all, g)
			ptrVariant = append(ptrVariant, false)
			if strings.Contains(g.LoxText(), "*!") {
				all = append(all, g)
				ptrVariant = append(ptrVariant, true)
			}
		}
		gs = all
	}
	for i, g := range gs {
		pkg := fmt.Sprintf("g%d", i)
		user := c03UserGo(g, pkg, ptrVariant[i])
		res := ws.RunFast(&pipe.Spec{Lox: map[string]string{"g.lox": g.LoxText()}, Go: map[string]string{"user.go": user}}, importerFor())
		mu.Lock()
		st.Evaluations++
		mu.Unlock()
		if res.Panic != "" {
			out = append(out, mc.Violation{Property: "C12", Check: "C03", Kind: "generator-panic", Size: len(g.String()),
				Case: mustJSON(c03Case{Grammar: g, Text: g.LoxText()}), Detail: "generator panicked on {" + g.String() + "}: " + firstLine(res.Panic)})
			continue
		}
		if !res.OK {
			mu.Lock()
			if strings.Contains(res.Diag, "grammar has conflicts") {
				st.Add("grammars_with_conflicts", 1)
			} else {
				st.Add("grammars_rejected", 1)
				st.Note("rejected: " + firstLine(res.Diag) + " e.g. {" + g.String() + "}")
			}
			mu.Unlock()
			continue
		}
		cfg := cfgref.FromGrammar(g)
		names, _ := c03Methods(g)
		j := &job{g: g, pkg: pkg, expect: map[string][]string{}}
		for _, s := range cfgref.SortedStrings(cfg.Sent(L)[cfg.Start]) {
			w := make([]int, len(s))
			toks := make([]int, len(s))
			for k := range s {
				w[k] = int(s[k])
				toks[k] = int(s[k]) - cfgref.TokOff + 2
			}
			trees := cfg.Trees(w, 2)
			if len(trees) != 1 {
				// lox accepted a grammar in which a sentence has several
				// derivation trees: it is not LALR(1), so a conflict went unreported
				out = append(out, mc.Violation{Property: "C04", Check: "C03", Kind: "ambiguous-grammar-accepted", Size: len(g.String()),
					Case:   mustJSON(c03Case{Grammar: g, Text: g.LoxText(), Input: toks}),
					Detail: fmt.Sprintf("grammar {%s}: lox reports no conflict, but the sentence %v has %d derivation trees", g.String(), toks, len(trees))})
				break
			}
			ref := &c03Ref{g: g, cfg: cfg, names: names}
			ref.eval(trees[0])
			j.inputs = append(j.inputs, toks)
			j.expect[fmt.Sprint(toks)] = ref.trace
		}
		jobs = append(jobs, j)
		pkgs = append(pkgs, st3.Pkg{Name: pkg, Files: map[string]string{"user.go": user, "base.gen.go": res.Base, "lexer.gen.go": res.Lexer, "parser.gen.go": res.Parser}})
	}
	if len(jobs) == 0 {
		return out
	}
	// main program
	var mb strings.Builder
	mb.WriteString("package main\n\nimport (\n\t\"encoding/json\"\n\t\"os\"\n")
	for _, j := range jobs {
		fmt.Fprintf(&mb, "\t%q\n", "example.com/st3/"+j.pkg)
	}
	mb.WriteString(")\n\ntype out struct {\n\tPkg string `json:\"pkg\"`\n\tIn []int `json:\"in\"`\n\tOK bool `json:\"ok\"`\n\tTrace []string `json:\"trace\"`\n\tPanic string `json:\"panic\"`\n}\n\nfunc main() {\n\tenc := json.NewEncoder(os.Stdout)\n")
	for _, j := range jobs {
		fmt.Fprintf(&mb, "\tfor _, in := range [][]int{")
		for _, in := range j.inputs {
			fmt.Fprintf(&mb, "{")
			for _, t := range in {
				fmt.Fprintf(&mb, "%d,", t)
			}
			fmt.Fprintf(&mb, "},")
		}
		fmt.Fprintf(&mb, "} {\n\t\tok, tr, p := %s.Run(in)\n\t\tenc.Encode(out{%q, in, ok, tr, p})\n\t}\n", j.pkg, j.pkg)
	}
	mb.WriteString("}\n")
	r := st3.Run("c03"+tag, pkgs, mb.String(), false, nil)
	if r.Stopped != "" {
		mu.Lock()
		st.Inconcl++
		st.Cap("a compiled program of a batch was stopped by the safety net (" + r.Stopped + "); the batch is not evaluated")
		mu.Unlock()
		return out
	}
	if r.BuildErr != "" {
		// find the package named in the first error line
		bad := firstLine(r.BuildErr)
		var g *gen.Grammar
		for _, j := range jobs {
			if strings.Contains(r.BuildErr, j.pkg+"/") {
				g = j.g
				break
			}
		}
		cs := c03Case{}
		desc := "?"
		if g != nil {
			cs = c03Case{Grammar: g, Text: g.LoxText()}
			desc = g.String()
		}
		out = append(out, mc.Violation{Property: "C06", Check: "C03", Kind: "does-not-compile", Size: len(desc), Case: mustJSON(cs),
			Detail: "lox accepted {" + desc + "} with an exactly typed user package but the result does not compile: " + bad + " | " + strings.Join(head(strings.Split(r.BuildErr, "\n"), 4), " | ")})
		return out
	}
	byPkg := map[string]*job{}
	for _, j := range jobs {
		byPkg[j.pkg] = j
	}
	dec := json.NewDecoder(strings.NewReader(string(r.Stdout)))
	seen := 0
	for dec.More() {
		var o c03Out
		if err := dec.Decode(&o); err != nil {
			mu.Lock()
			st.HarnessError("stage-3 output: %v", err)
			mu.Unlock()
			break
		}
		seen++
		j := byPkg[o.Pkg]
		want := j.expect[fmt.Sprint(o.In)]
		mu.Lock()
		st.Validated++
		st.Add("sentences_run_on_compiled_code", 1)
		mu.Unlock()
		bad := ""
		switch {
		case o.Panicked != "":
			bad = "panicked: " + o.Panicked
		case !o.OK:
			bad = "parse() returned false on a sentence"
		case strings.Join(o.Trace, "; ") != strings.Join(want, "; "):
			bad = "actions ran as {" + strings.Join(o.Trace, "; ") + "}, the derivation tree defines {" + strings.Join(want, "; ") + "}"
		}
		if bad != "" {
			out = append(out, mc.Violation{Property: "C03", Check: "C03", Kind: "wrong-actions", Size: len(j.g.String())*100 + len(o.In),
				Case:   mustJSON(c03Case{Grammar: j.g, Text: j.g.LoxText(), Input: o.In}),
				Detail: fmt.Sprintf("grammar {%s} input %v: %s", j.g.String(), o.In, bad)})
		}
	}
	total := 0
	for _, j := range jobs {
		total += len(j.inputs)
	}
	if seen != total || r.RunErr != "" {
		mu.Lock()
		st.HarnessError("stage-3 program produced %d of %d results (%s %s)", seen, total, r.RunErr, firstLine(r.Stderr))
		mu.Unlock()
	}
	mu.Lock()
	for _, j := range jobs {
		if len(j.inputs) >= 3 {
			st.Nontrivial++
		}
		st.Add("packages_compiled", 1)
		st.Sample(map[string]any{"grammar": j.g.String(), "sentences": len(j.inputs)})
	}
	mu.Unlock()
	return out
}

func c03Worker(c *mc.Ctx) {
	L := 6
	if c.Quick() {
		L = 5
	}
	fam := c03Family(c.Quick())
	// also the one-sugar variants of the small enumerated space (a slice of them)
	sp := gen.NewSpace(2, 2, 2, 2, false)
	limit, stride := int64(53361), int64(37)
	if c.Quick() {
		stride = 331
	}
	for i := int64(0); i < limit; i += stride {
		if g := sp.Get(i); g != nil {
			vs := gen.SugarVariants(g)
			if len(vs) > 0 {
				fam = append(fam, vs[int(i)%len(vs)])
			}
		}
	}
	// Carrier pass: the same grammars on the real runtime with their real tables
	// and the generic action: every reduction of every sentence pops exactly its
	// production's terms, the reductions form the derivation tree of the input,
	// bottom-up and left to right; and the same again with the action of each
	// reduction parsing another sentence with a parser value of its own.
	{
		ws := pipe.NewWorkspace("c03c")
		r := px.NewRunner(px.NB)
		for i, g := range fam {
			b := px.Build(ws, g, px.NB)
			if b.Status != px.Accepted {
				continue // verdicts are the compiled pass's business
			}
			var st mc.Stats
			for _, v := range c01Explore(b, r, "c03-family", int64(i), L, L+2, 100, &st) {
				if v.Property == "C03" {
					c.Stats.Violate(v)
				}
			}
			c.Stats.Evaluations += st.Evaluations
			c.Stats.States += st.States
			c.Stats.Transitions += st.Transitions
			for k, n := range st.Extra {
				c.Stats.Add("carrier_"+k, n)
			}
		}
		ws.Close()
	}
	const batch = 40
	var mu sync.Mutex
	var wg sync.WaitGroup
	sem := make(chan struct{}, 6)
	for b := 0; b*batch < len(fam); b++ {
		lo, hi := b*batch, (b+1)*batch
		if hi > len(fam) {
			hi = len(fam)
		}
		wg.Add(1)
		sem <- struct{}{}
		go func(b int, gs []*gen.Grammar) {
			defer wg.Done()
			defer func() { <-sem }()
			vs := c03Batch(fmt.Sprint(b), gs, L, &c.Stats, &mu)
			mu.Lock()
			for _, v := range vs {
				c.Stats.Violate(v)
			}
			mu.Unlock()
		}(b, fam[lo:hi])
	}
	wg.Wait()
	sort.SliceStable(c.Stats.Violations, func(i, j int) bool { return c.Stats.Violations[i].Size < c.Stats.Violations[j].Size })
}

func c03Replay(raw json.RawMessage) *mc.Violation {
	var cs c03Case
	if err := json.Unmarshal(raw, &cs); err != nil || cs.Grammar == nil {
		return nil
	}
	var st mc.Stats
	var mu sync.Mutex
	vs := c03Batch("r", []*gen.Grammar{cs.Grammar}, maxInt(len(cs.Input), 4), &st, &mu)
	for _, v := range vs {
		var c2 c03Case
		json.Unmarshal(v.Case, &c2)
		if fmt.Sprint(c2.Input) == fmt.Sprint(cs.Input) {
			return &v
		}
	}
	if len(vs) > 0 {
		return &vs[0]
	}
	return nil
}

func init() {
	mc.Register(&mc.Check{
		ID:    "C03",
		Level: "exploration",
		Rule: "shape-complete family: every sugar (? * + *! @list @list?) applied to a token and to a rule, at the only / first / middle / last position of alternatives of arity 1-4; nested one level (a rule whose alternative contains a sugared term, used under another sugar); two sugared terms in one alternative; plus a stride through the one-sugar variants of G(2,2,2,2); " +
			"each accepted grammar gets a user package in which every rule has its own Go result type and every signature group one logging action; the UNMODIFIED generated files are compiled with it by the real toolchain and run on every sentence up to the length bound; the log of action calls (method, rendered arguments, result id) must equal the post-order traversal of the unique derivation tree with the documented sugar values; non-trivial = package with >= 3 sentences",
		Assume: []string{"reference: internal/cfgref derivation trees + the documented values (zero value for absent x?, elements in input order, separators dropped, Discard()==true elements dropped for x*!)", "Discard() is a function of the first token's input index, computed identically on both sides"},
		Worker: c03Worker,
		Replay: c03Replay,
		Serial: true,
	})
}
