package main

import (
	"fmt"

	"github.com/dcaiafa/lox/internal/codegen"
	"github.com/dcaiafa/lox/verif/internal/mc"
	"github.com/dcaiafa/lox/verif/internal/pipe"
)

// (d) The order in which the Go files of the package are registered in the
// FileSet. packages.Load parses the files of a package in parallel goroutines,
// so the order of their AddFile calls - which decides how token.Pos values of
// different files compare - is the scheduler's choice; the file *list* handed
// to the type checker is in name order whatever happened. The fast path has a
// seam for exactly that (hooks/codegen_hook.go VerifParseOrder): every
// permutation of the registration order is explored, the output must not
// depend on it.

type c13PkgFiles struct {
	name string
	lox  string
	gos  map[string]string
}

func c13ParseOrderPackages() []c13PkgFiles {
	lox := "@lexer\nNUM = [0-9]+\nADD = '+'\nLP = '('\nRP = ')'\n@frag [ \\n]+ @discard\n@parser\n@start e = e ADD t | t\nt = NUM | LP e RP | ADD t\n"
	return []c13PkgFiles{
		// the methods of one rule live in different files and spell one result type in two ways
		{"interface-vs-any", lox, map[string]string{
			"a_types.go": "package p\n\ntype Token struct{ Type int }\n\ntype parser struct {\n\tlox\n}\n\nfunc (p *parser) on_e__add(a interface{}, _ Token, b interface{}) interface{} { return nil }\n",
			"b_rules.go": "package p\n\nfunc (p *parser) on_e__t(a any) any { return a }\n\nfunc (p *parser) on_t__num(a Token) any { return nil }\n",
			"c_rules.go": "package p\n\nfunc (p *parser) on_t__paren(_ Token, a any, _ Token) interface{} { return a }\n\nfunc (p *parser) on_t__neg(_ Token, a interface{}) interface{} { return a }\n",
		}},
		// an alias and its target, declared in the last file
		{"alias-vs-target", lox, map[string]string{
			"a_rules.go": "package p\n\nfunc (p *parser) on_e__add(a Val, _ Token, b Node) Val { return nil }\n\nfunc (p *parser) on_t__neg(_ Token, a Node) Node { return a }\n",
			"b_rules.go": "package p\n\nfunc (p *parser) on_e__t(a Node) Node { return a }\n\nfunc (p *parser) on_t__num(a Token) Val { return nil }\n\nfunc (p *parser) on_t__paren(_ Token, a Node, _ Token) Val { return a }\n",
			"z_types.go": "package p\n\ntype Token struct{ Type int }\n\ntype Node interface{}\n\ntype Val = Node\n\ntype parser struct {\n\tlox\n}\n",
		}},
		// two candidate structs would be an error; one struct, _onBounds and the Token type spread out
		{"bounds-elsewhere", lox, map[string]string{
			"a_bounds.go": "package p\n\nfunc (p *parser) _onBounds(r any, b, e Token) {}\n",
			"m_rules.go":  "package p\n\nfunc (p *parser) on_e__add(a any, _ Token, b any) any { return nil }\n\nfunc (p *parser) on_e__t(a any) any { return a }\n\nfunc (p *parser) on_t(a Token) any { return nil }\n\nfunc (p *parser) on_t__paren(_ Token, a any, _ Token) any { return a }\n\nfunc (p *parser) on_t__neg(_ Token, a any) any { return a }\n",
			"z_types.go":  "package p\n\ntype parser struct {\n\tlox\n}\n\ntype Token struct{ Type int }\n",
		}},
	}
}

func permutations(n int) [][]int {
	var out [][]int
	p := make([]int, n)
	for i := range p {
		p[i] = i
	}
	var rec func(k int)
	rec = func(k int) {
		if k == n {
			out = append(out, append([]int(nil), p...))
			return
		}
		for i := k; i < n; i++ {
			p[k], p[i] = p[i], p[k]
			rec(k + 1)
			p[k], p[i] = p[i], p[k]
		}
	}
	rec(0)
	return out
}

// c13ParseOrderOne generates pkg under one registration order; "" order = default.
func c13ParseOrderOne(ws *pipe.Workspace, pkg c13PkgFiles, order []int) *pipe.Result {
	if order != nil {
		codegen.VerifParseOrder = func(n int) []int {
			if n != len(order) {
				return nil
			}
			return order
		}
		defer func() { codegen.VerifParseOrder = nil }()
	}
	return ws.RunFast(&pipe.Spec{Lox: map[string]string{"g.lox": pkg.lox}, Go: pkg.gos}, nil)
}

func c13ParseOrder(c *mc.Ctx) {
	ws := pipe.NewWorkspace("c13po")
	defer ws.Close()
	for pi, pkg := range c13ParseOrderPackages() {
		ref := c13ParseOrderOne(ws, pkg, nil)
		if ref.Panic != "" || !ref.OK {
			c.Stats.HarnessError("parse-order package %s is not accepted in the default order: %s %s", pkg.name, firstLine(ref.Diag), firstLine(ref.Panic))
			continue
		}
		// the package's own files, base.gen.go and lexer.gen.go (written by the
		// stages before ParseGo), and the placeholder for parser.gen.go
		n := len(pkg.gos) + 3
		for _, perm := range permutations(n) {
			res := c13ParseOrderOne(ws, pkg, perm)
			c.Stats.Evaluations++
			c.Stats.Nontrivial++
			c.Stats.Transitions++
			c.Stats.Add("file_registration_orders", 1)
			bad := ""
			switch {
			case res.Panic != "":
				bad = "the generator panicked: " + firstLine(res.Panic)
			case !res.OK:
				bad = "the package is refused: " + firstLine(res.Diag)
			case res.Base != ref.Base:
				bad = "base.gen.go differs: " + pipe.FirstDiff(res.Base, ref.Base)
			case res.Lexer != ref.Lexer:
				bad = "lexer.gen.go differs: " + pipe.FirstDiff(res.Lexer, ref.Lexer)
			case res.Parser != ref.Parser:
				bad = "parser.gen.go differs: " + pipe.FirstDiff(res.Parser, ref.Parser)
			}
			if bad != "" {
				c.Stats.Violate(mc.Violation{Property: "C13", Check: "C13", Kind: "file-registration-order", Size: pi*100 + len(perm),
					Case:   mustJSON(map[string]any{"parse_order_package": pkg.name, "order": perm}),
					Detail: fmt.Sprintf("package %q (Go files in name order, including base.gen.go and lexer.gen.go; the generated placeholder last) with its files parsed - registered in the FileSet - in the order %v instead of %v, which packages.Load leaves to the goroutine scheduler: %s", pkg.name, perm, permutations(n)[0], bad)})
				break
			}
		}
	}
}

// c13ParseOrderReplay re-runs one (package, order).
func c13ParseOrderReplay(name string, order []int) *mc.Violation {
	ws := pipe.NewWorkspace("c13por")
	defer ws.Close()
	for _, pkg := range c13ParseOrderPackages() {
		if pkg.name != name {
			continue
		}
		ref := c13ParseOrderOne(ws, pkg, nil)
		res := c13ParseOrderOne(ws, pkg, order)
		if res.Panic != "" || res.OK != ref.OK || res.Base != ref.Base || res.Lexer != ref.Lexer || res.Parser != ref.Parser {
			return &mc.Violation{Property: "C13", Check: "C13", Kind: "file-registration-order", Detail: fmt.Sprintf("package %q, registration order %v: output differs from the default order's (%s)", name, order, pipe.FirstDiff(res.Parser, ref.Parser))}
		}
	}
	return nil
}
