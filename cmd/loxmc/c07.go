package main

import (
	"encoding/json"
	"fmt"

	"github.com/dcaiafa/lox/verif/internal/lexref"
	"github.com/dcaiafa/lox/verif/internal/lx"
	"github.com/dcaiafa/lox/verif/internal/mc"
	"github.com/dcaiafa/lox/verif/internal/pipe"
	"github.com/dcaiafa/lox/verif/internal/px"
)

// ruleOpt is one way of writing a rule: its kind and its actions in written
// order. Mode targets are symbolic: "D" default, "M", "N".
type ruleOpt struct {
	kind    int // 0 token, 1 frag accumulate, 2 frag discard, 3 frag emit
	actions []lexref.Action
}

func c07Options(modes []string, full bool) []ruleOpt {
	// mode actions available
	var mact [][]lexref.Action
	mact = append(mact, nil)
	for _, m := range modes {
		mact = append(mact, []lexref.Action{{K: lexref.APush, Arg: m}})
	}
	mact = append(mact, []lexref.Action{{K: lexref.APop}})
	var out []ruleOpt
	for _, ma := range mact {
		out = append(out, ruleOpt{kind: 0, actions: ma})
		out = append(out, ruleOpt{kind: 1, actions: ma})
		for k, fin := range []lexref.Action{{K: lexref.ADiscard}, {K: lexref.AEmit, Arg: "EM"}} {
			if ma == nil {
				out = append(out, ruleOpt{kind: 2 + k, actions: []lexref.Action{fin}})
				continue
			}
			// every order of the written actions
			out = append(out, ruleOpt{kind: 2 + k, actions: append(append([]lexref.Action{}, ma...), fin)})
			out = append(out, ruleOpt{kind: 2 + k, actions: append([]lexref.Action{fin}, ma...)})
		}
	}
	if full {
		// two mode actions on one rule, executed in written order, with
		// @discard/@emit written before, between and after them
		var pairs [][]lexref.Action
		for _, m := range modes {
			pairs = append(pairs,
				[]lexref.Action{{K: lexref.APop}, {K: lexref.APush, Arg: m}},
				[]lexref.Action{{K: lexref.APush, Arg: m}, {K: lexref.APop}})
			for _, m2 := range modes {
				if m2 != m {
					pairs = append(pairs, []lexref.Action{{K: lexref.APush, Arg: m}, {K: lexref.APush, Arg: m2}})
				}
			}
		}
		for _, pr := range pairs {
			out = append(out, ruleOpt{kind: 0, actions: pr})
			out = append(out, ruleOpt{kind: 1, actions: pr})
			for k, fin := range []lexref.Action{{K: lexref.ADiscard}, {K: lexref.AEmit, Arg: "EM"}} {
				out = append(out, ruleOpt{kind: 2 + k, actions: []lexref.Action{fin, pr[0], pr[1]}})
				out = append(out, ruleOpt{kind: 2 + k, actions: []lexref.Action{pr[0], fin, pr[1]}})
				out = append(out, ruleOpt{kind: 2 + k, actions: []lexref.Action{pr[0], pr[1], fin}})
			}
		}
	}
	return out
}

type c07Space struct {
	modeNames []string    // "" default first
	perMode   [][]ruleOpt // options for the rules of each mode
	nRules    []int       // rules per mode
}

var c07Pats = []string{"a", "b", "c"}

func (sp *c07Space) Size() int64 {
	n := int64(1)
	for mi := range sp.modeNames {
		for r := 0; r < sp.nRules[mi]; r++ {
			n *= int64(len(sp.perMode[mi]))
		}
	}
	return n
}

func (sp *c07Space) Get(idx int64) *lexref.Spec {
	s := &lexref.Spec{}
	tok := 0
	for mi, name := range sp.modeNames {
		m := lexref.Mode{Name: name}
		for r := 0; r < sp.nRules[mi]; r++ {
			o := sp.perMode[mi][idx%int64(len(sp.perMode[mi]))]
			idx /= int64(len(sp.perMode[mi]))
			rule := lexref.Rule{Rx: lexref.Lit(c07Pats[r]), Actions: o.actions}
			if o.kind == 0 {
				tok++
				rule.K = lexref.RToken
				rule.Name = fmt.Sprintf("T%d", tok)
			} else {
				rule.K = lexref.RFrag
			}
			m.Rules = append(m.Rules, rule)
		}
		if mi == 0 {
			m.Rules = append(m.Rules, lexref.Rule{K: lexref.RToken, Name: "EM", Rx: lexref.Lit("z")})
		}
		s.Modes = append(s.Modes, m)
	}
	return s
}

func c07Spaces(quick bool) []struct {
	name  string
	sp    *c07Space
	limit int64
} {
	type fam = struct {
		name  string
		sp    *c07Space
		limit int64
	}
	two := []string{"", "M"}
	three := []string{"", "M", "N"}
	o2 := c07Options(two, false)
	o2f := c07Options(two, true)
	o3 := c07Options(three, false)
	if quick {
		return []fam{
			{"2modes-2x1", &c07Space{modeNames: two, perMode: [][]ruleOpt{o2, o2}, nRules: []int{2, 1}}, 0},
			{"2modes-1x2", &c07Space{modeNames: two, perMode: [][]ruleOpt{o2, o2}, nRules: []int{1, 2}}, 0},
			{"3modes-1x1x1", &c07Space{modeNames: three, perMode: [][]ruleOpt{o3, o3, o3}, nRules: []int{1, 1, 1}}, 0},
			{"3modes-multi-1x1x1", &c07Space{modeNames: three, perMode: [][]ruleOpt{c07Options(three, true), o3[:6], o3[:6]}, nRules: []int{1, 1, 1}}, 0},
			{"2modes-multi-1x1", &c07Space{modeNames: two, perMode: [][]ruleOpt{o2f, o2f}, nRules: []int{1, 1}}, 0},
		}
	}
	return []fam{
		{"2modes-2x2", &c07Space{modeNames: two, perMode: [][]ruleOpt{o2, o2}, nRules: []int{2, 2}}, 200000},
		{"2modes-2x1-multi", &c07Space{modeNames: two, perMode: [][]ruleOpt{o2f, o2f}, nRules: []int{2, 1}}, 150000},
		{"3modes-multi-1x1x1", &c07Space{modeNames: three, perMode: [][]ruleOpt{c07Options(three, true), c07Options(three, true), o3}, nRules: []int{1, 1, 1}}, 150000},
		{"3modes-1x1x1", &c07Space{modeNames: three, perMode: [][]ruleOpt{o3, o3, o3}, nRules: []int{1, 1, 1}}, 0},
		{"3modes-2x1x1", &c07Space{modeNames: three, perMode: [][]ruleOpt{o3, o3, o3}, nRules: []int{2, 1, 1}}, 150000},
	}
}

// c07ManyModes: specifications with k modes (default included): the default
// mode pushes mode i on its own letter; mode i has its own token for 'a', goes
// on to mode i+1 on 'n' and pops on 'z'. Mode names come in three orders
// relative to declaration order (same, reversed, interleaved): lox numbers
// modes by name. This is about scale (two-digit mode numbers).
func c07ManyModes() []*lexref.Spec {
	var out []*lexref.Spec
	for _, k := range []int{4, 10, 11, 12, 13} {
		for scheme := 0; scheme < 3; scheme++ {
			name := func(i int) string { // i in 1..k-1
				switch scheme {
				case 1:
					return fmt.Sprintf("M%02d", k-i)
				case 2:
					return fmt.Sprintf("M%c%d", 'a'+(i*7)%5, i)
				}
				return fmt.Sprintf("M%02d", i)
			}
			s := &lexref.Spec{Modes: []lexref.Mode{{}}}
			for i := 1; i < k; i++ {
				s.Modes[0].Rules = append(s.Modes[0].Rules, lexref.Rule{K: lexref.RToken, Name: fmt.Sprintf("P%d", i), Rx: lexref.Lit(string(rune('a' + i))),
					Actions: []lexref.Action{{K: lexref.APush, Arg: name(i)}}})
			}
			s.Modes[0].Rules = append(s.Modes[0].Rules, lexref.Rule{K: lexref.RToken, Name: "EM", Rx: lexref.Lit("z")})
			for i := 1; i < k; i++ {
				m := lexref.Mode{Name: name(i)}
				m.Rules = append(m.Rules, lexref.Rule{K: lexref.RToken, Name: fmt.Sprintf("T%d", i), Rx: lexref.Lit("a")})
				m.Rules = append(m.Rules, lexref.Rule{K: lexref.RFrag, Rx: lexref.Lit("n"), Actions: []lexref.Action{{K: lexref.APush, Arg: name(i%(k-1) + 1)}, {K: lexref.ADiscard}}})
				m.Rules = append(m.Rules, lexref.Rule{K: lexref.RFrag, Rx: lexref.Lit("z"), Actions: []lexref.Action{{K: lexref.APop}, {K: lexref.ADiscard}}})
				s.Modes = append(s.Modes, m)
			}
			out = append(out, s)
		}
	}
	return out
}

// c07NameSubsets: one specification per non-empty subset of the mode names
// {Ma, Mb, Mc}: the default mode pushes each declared mode on its own letter,
// each mode has a token of its own, pushes the next declared mode and pops.
func c07NameSubsets() []*lexref.Spec {
	all := []string{"Ma", "Mb", "Mc"}
	var out []*lexref.Spec
	for mask := 1; mask < 8; mask++ {
		var names []string
		for i, n := range all {
			if mask&(1<<i) != 0 {
				names = append(names, n)
			}
		}
		s := &lexref.Spec{Modes: []lexref.Mode{{}}}
		for i, n := range names {
			s.Modes[0].Rules = append(s.Modes[0].Rules, lexref.Rule{K: lexref.RToken, Name: "P" + n, Rx: lexref.Lit(string(rune('b' + i))),
				Actions: []lexref.Action{{K: lexref.APush, Arg: n}}})
		}
		s.Modes[0].Rules = append(s.Modes[0].Rules, lexref.Rule{K: lexref.RToken, Name: "EM", Rx: lexref.Lit("z")})
		for i, n := range names {
			m := lexref.Mode{Name: n}
			m.Rules = append(m.Rules, lexref.Rule{K: lexref.RToken, Name: "T" + n, Rx: lexref.Lit("a")})
			m.Rules = append(m.Rules, lexref.Rule{K: lexref.RFrag, Rx: lexref.Lit("n"), Actions: []lexref.Action{{K: lexref.APush, Arg: names[(i+1)%len(names)]}, {K: lexref.ADiscard}}})
			m.Rules = append(m.Rules, lexref.Rule{K: lexref.RFrag, Rx: lexref.Lit("z"), Actions: []lexref.Action{{K: lexref.APop}, {K: lexref.ADiscard}}})
			s.Modes = append(s.Modes, m)
		}
		out = append(out, s)
	}
	return out
}

// c07Padded: two rules that match the same text (a keyword that pushes a mode,
// declared before or after an identifier rule), followed by k one-character
// token rules and a last rule with a different mode action. The point is the
// numbering of NFA / DFA states: with k growing, the accepting states of the
// later rules run through every one- and two-digit number.
func c07Padded() []*lexref.Spec {
	var out []*lexref.Spec
	cls := lexref.Cls(&lexref.Class{Items: []lexref.ClassItem{lexref.Range('a', 'b')}})
	for _, kw := range []string{"a", "ab", "abb"} {
		for order := 0; order < 2; order++ {
			for k := 0; k <= 22; k++ {
				key := lexref.Rule{K: lexref.RToken, Name: "KW", Rx: lexref.Lit(kw), Actions: []lexref.Action{{K: lexref.APush, Arg: "M"}}}
				id := lexref.Rule{K: lexref.RToken, Name: "ID", Rx: lexref.Rep(cls, lexref.CPlus)}
				var rules []lexref.Rule
				if order == 0 {
					rules = []lexref.Rule{key, id}
				} else {
					rules = []lexref.Rule{id, key}
				}
				for i := 0; i < k; i++ {
					rules = append(rules, lexref.Rule{K: lexref.RToken, Name: fmt.Sprintf("P%d", i+1), Rx: lexref.Lit(string(rune('c' + i)))})
				}
				rules = append(rules, lexref.Rule{K: lexref.RToken, Name: "EM", Rx: lexref.Lit("z"), Actions: []lexref.Action{{K: lexref.APush, Arg: ""}}})
				s := &lexref.Spec{Modes: []lexref.Mode{{Rules: rules},
					{Name: "M", Rules: []lexref.Rule{{K: lexref.RToken, Name: "T", Rx: lexref.Lit("a"), Actions: []lexref.Action{{K: lexref.APop}}}, {K: lexref.RFrag, Rx: lexref.Lit("z"), Actions: []lexref.Action{{K: lexref.ADiscard}}}}}}}
				out = append(out, s)
			}
		}
	}
	return out
}

// pairsShort: the quick tier runs the two-instance pass on every 4th
// specification of a family, with inputs of up to 2 symbols (every 64th: 3).
var pairsShort = true

var c07Symbols = [][]byte{[]byte("a"), []byte("b"), []byte("c"), []byte("z")}

func c07One(ws *pipe.Workspace, fam string, idx int64, s *lexref.Spec, depth, L int, st *mc.Stats) []mc.Violation {
	var out []mc.Violation
	b := lx.Build(ws, s, "")
	switch b.Status {
	case lx.Rejected:
		st.Add("specs_rejected", 1)
		st.Note("rejected: " + firstLine(b.Res.Diag) + " e.g. {" + s.OneLine() + "}")
		return nil
	case lx.Panicked:
		return []mc.Violation{{Property: "C12", Check: "C07", Kind: "generator-panic", Size: len(s.OneLine()),
			Case: lexCaseJSON(fam, idx, s, nil, nil, L), Detail: "generator panicked on {" + s.OneLine() + "}: " + firstLine(b.Res.Panic)}}
	case lx.Broken:
		st.HarnessError("spec {%s}: %s", s.OneLine(), b.Problem)
		return nil
	}
	st.Evaluations++
	st.Validated++
	if b.ModeCountProblem != "" {
		out = append(out, mc.Violation{Property: "C10", Check: "C07", Kind: "mode-tables-missing", Size: len(s.OneLine()),
			Case: lexCaseJSON(fam, idx, s, nil, nil, L), Detail: "spec {" + s.OneLine() + "}: " + b.ModeCountProblem})
	}
	if prob := checkLexTables(b); prob != "" {
		out = append(out, mc.Violation{Property: "C10", Check: "C07", Kind: "lexer-table", Size: len(s.OneLine()),
			Case: lexCaseJSON(fam, idx, s, nil, nil, L), Detail: "spec {" + s.OneLine() + "}: " + prob})
	}
	pr := lx.Product(b, px.NB, lx.ProductOpts{MaxDepth: depth, StopAtError: true, CompareEvents: true})
	st.States += int64(pr.States)
	st.Transitions += int64(pr.Transitions)
	st.Add("branches_closed_at_stack_depth_bound", int64(pr.DepthCapped))
	for _, mm := range pr.Mismatches {
		out = append(out, mc.Violation{Property: "C07", Check: "C07", Kind: "product-" + mm.Kind, Size: len(s.OneLine())*100 + len(mm.Path),
			Case:   lexCaseJSON(fam, idx, s, mm.Path, nil, L),
			Detail: fmt.Sprintf("spec {%s} after pushing %s: %s", s.OneLine(), mm.PathText(), mm.Detail)})
	}
	if len(out) > 0 {
		return out
	}
	if pr.States > 2 {
		st.Nontrivial++
	}
	b.Install(px.NB)
	nbad := 0
	forByteStrings(c07Symbols, L, func(in []byte) {
		if nbad > 0 {
			return
		}
		st.Add("driver_inputs", 1)
		got, stuck, pmsg := lx.ImplTokensGuard(px.NB, b, in, true, 4*len(in)+8)
		want := lx.RefTokens(b, in, nil)
		if len(want) > 0 && want[len(want)-1].Kind == "ref-livelock" {
			st.Add("driver_inputs_reference_livelock", 1) // C11's subject (empty-match loops cannot occur here: rules are literals)
			return
		}
		if pmsg != "" || stuck || !lx.SameToks(got, want) {
			nbad++
			cp := append([]byte(nil), in...)
			out = append(out, mc.Violation{Property: "C07", Check: "C07", Kind: "driver-tokens", Size: len(s.OneLine())*100 + len(in),
				Case:   lexCaseJSON(fam, idx, s, nil, cp, L),
				Detail: fmt.Sprintf("spec {%s} input %q: driver produced %v (stuck=%v panic=%q), the rules define %v", s.OneLine(), in, got, stuck, pmsg, want)})
		}
	})
	if len(out) > 0 || len(s.Modes) < 2 || (pairsShort && idx%4 != 0) {
		return out
	}
	// The mode stack belongs to its state machine: two state machines of the
	// package used in turns (one PushRune call each), over every ordered pair of
	// short inputs, do what each does alone.
	var alpha []int
	for _, r := range lx.Alphabet(b.C, nil) {
		// (the rules of this check are literals over lower-case letters; the other
		// representatives are characters no rule matches)
		if r >= 'a' && r <= 'z' && len(alpha) < 6 {
			alpha = append(alpha, r)
		}
	}
	lp := 3
	if len(alpha) > 4 || (pairsShort && idx%64 != 0) {
		lp = 2
	}
	var inputs [][]int
	forStrings(alpha, lp, func(w []int) { inputs = append(inputs, append([]int(nil), w...)) })
	pr2 := lx.Pairs(b, px.NB, inputs)
	st.Add("instance_pairs", int64(pr2.Pairs))
	st.Transitions += int64(pr2.Calls)
	if pr2.Problem != "" {
		out = append(out, mc.Violation{Property: "C07", Check: "C07", Kind: "instances-interfere", Size: len(s.OneLine())*100 + len(pr2.U) + len(pr2.V),
			Case:   lexCaseJSON(fam, idx, s, nil, nil, L),
			Detail: fmt.Sprintf("spec {%s}: %s", s.OneLine(), pr2.Problem)})
	}
	return out
}

func c07Worker(c *mc.Ctx) {
	ws := pipe.NewWorkspace("c07")
	defer ws.Close()
	depth, L := 5, 6
	pairsShort = c.Quick()
	if c.Quick() {
		depth, L = 3, 5
	}
	for i, s := range c07ManyModes() {
		if !c.Mine(int64(i)) {
			continue
		}
		// strings through the driver stay short here: the alphabet is large
		for _, v := range c07One(ws, "many-modes", int64(i), s, depth, 2, &c.Stats) {
			c.Stats.Violate(v)
		}
	}
	// Mode NAMES shared between specifications generated one after the other in
	// one process: every ordered pair of specifications whose modes are two
	// different non-empty subsets of {Ma, Mb, Mc} (a name then stands at different
	// places of the two sorted mode lists). The first is only generated; the second
	// is explored. (A failure here passes when replayed alone and is replayed by
	// re-running the shard: ground rule 3.)
	subsets := c07NameSubsets()
	for i := range subsets {
		for j := range subsets {
			if i == j || !c.Mine(int64(i*len(subsets)+j)) {
				continue
			}
			lx.Build(ws, subsets[i], "")
			for _, v := range c07One(ws, fmt.Sprintf("mode-names-after-%d", i), int64(j), subsets[j], depth, 3, &c.Stats) {
				c.Stats.Violate(v)
			}
		}
	}
	for i, s := range c07Padded() {
		if !c.Mine(int64(i)) {
			continue
		}
		for _, v := range c07One(ws, "padded-overlap", int64(i), s, depth, 3, &c.Stats) {
			c.Stats.Violate(v)
		}
	}
	for _, fam := range c07Spaces(c.Quick()) {
		n := fam.sp.Size()
		if fam.limit > 0 && fam.limit < n {
			c.Stats.Cap(fmt.Sprintf("%s: first %d of %d specifications", fam.name, fam.limit, n))
			n = fam.limit
		}
		for i := int64(0); i < n; i++ {
			if !c.Mine(i) {
				continue
			}
			s := fam.sp.Get(i)
			if len(c.Stats.Samples) < 3 && i%1013 == 7 {
				c.Stats.Sample(map[string]any{"family": fam.name, "spec": s.OneLine(), "stack_depth_bound": depth, "driver_strings_up_to": L})
			}
			for _, v := range c07One(ws, fam.name, i, s, depth, L, &c.Stats) {
				c.Stats.Violate(v)
			}
		}
	}
}

func c07Replay(raw json.RawMessage) *mc.Violation {
	var lc lexCase
	if err := json.Unmarshal(raw, &lc); err != nil {
		return &mc.Violation{Property: "C07", Kind: "bad-replay", Detail: err.Error()}
	}
	ws := pipe.NewWorkspace("c07r")
	defer ws.Close()
	pairsShort = false // the two-instance pass on whatever specification is replayed
	var st mc.Stats
	vs := c07One(ws, lc.Family, lc.Index, lc.Spec, 3, lc.L, &st)
	if len(vs) == 0 {
		return nil
	}
	return &vs[0]
}

func init() {
	mc.Register(&mc.Check{
		ID:    "C07",
		Level: "model_checking",
		Rule: "mode graphs: 2-3 modes, 1-2 literal rules per mode; every rule is written in every way from {token, accumulating fragment, @discard fragment, @emit fragment} x {no mode action, @push_mode(each mode incl. the default), @pop_mode} x every order of the written actions (thorough: also two mode actions on one rule); plus specifications with 4 and 10-13 modes (two-digit mode numbers) under three orders of mode names relative to declaration order, and a keyword / identifier pair with mode actions followed by 0-22 one-character rules (state numbers running through one and two digits); " +
			"each: BFS of the product (real state machine) x (reference mode-stack machine), mode stack bounded by depth D (deeper pushes close the branch and are counted), plus all strings up to L over the pattern characters through the real driver (token texts include accumulated fragment text); plus, for specifications with modes, two state machines of the package used in turns (one PushRune call each) over every ordered pair of inputs of up to 3 symbols (quick tier: every 4th specification, inputs of up to 2 symbols, every 64th up to 3), each compared call by call with itself used alone; non-trivial = spec with > 2 product states",
		Assume: []string{"reference: internal/lx RefM (documented stack discipline; every written action takes effect; several mode actions on one rule execute in written order)", "nothing is compared after an unmatched @pop_mode or the first error"},
		Worker: c07Worker,
		Replay: c07Replay,
	})
}
