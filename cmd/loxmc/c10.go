package main

import (
	"bytes"
	"encoding/json"
	"fmt"
	"github.com/dcaiafa/lox/verif/internal/root"
	gotoken "go/token"
	"math"
	"os"
	"path/filepath"
	"sort"

	loxast "github.com/dcaiafa/lox/internal/ast"
	"github.com/dcaiafa/lox/internal/base/errlogger"
	"github.com/dcaiafa/lox/internal/codegen"
	loxparser "github.com/dcaiafa/lox/internal/parser"
	"github.com/dcaiafa/lox/verif/internal/fromast"

	"github.com/dcaiafa/lox/internal/lexergen/dfa"
	"github.com/dcaiafa/lox/internal/lexergen/mode"
	"github.com/dcaiafa/lox/internal/lexergen/rang3"
	"github.com/dcaiafa/lox/internal/parsergen/lr1"
	"github.com/dcaiafa/lox/verif/internal/gen"
	"github.com/dcaiafa/lox/verif/internal/lexref"
	"github.com/dcaiafa/lox/verif/internal/lx"
	"github.com/dcaiafa/lox/verif/internal/mc"
	"github.com/dcaiafa/lox/verif/internal/pipe"
	"github.com/dcaiafa/lox/verif/internal/px"
)

// checkLexTables reads every emitted _lexerModeN by the documented row format
// (flags, gotoCount, gotoCount x (lo, hi, target), then (actionType,
// actionParam) pairs), checks its structure, and compares it state by state
// and edge by edge with the mode.Mode DFA object it was emitted from. It
// returns "" or a description of the first problem.
func checkLexTables(b *lx.Built) string {
	nmodes := len(b.Modes)
	byIndex := make([]*mode.Mode, nmodes)
	for _, m := range b.DFAs {
		if m.Index < 0 || m.Index >= nmodes {
			return fmt.Sprintf("mode %q has index %d, %d tables emitted", m.Name, m.Index, nmodes)
		}
		if byIndex[m.Index] != nil {
			return fmt.Sprintf("two modes share index %d", m.Index)
		}
		byIndex[m.Index] = m
	}
	for mi, tbl := range b.Modes {
		rows, err := px.DecodeRows(tbl)
		if err != nil {
			return fmt.Sprintf("_lexerMode%d: %v", mi, err)
		}
		m := byIndex[mi]
		if m == nil {
			return fmt.Sprintf("_lexerMode%d has no mode object", mi)
		}
		if len(rows) != len(m.DFA.States) {
			return fmt.Sprintf("_lexerMode%d has %d rows, its DFA has %d states", mi, len(rows), len(m.DFA.States))
		}
		for si, row := range rows {
			if row == nil {
				return fmt.Sprintf("_lexerMode%d: state %d has no row", mi, si)
			}
			if len(row) < 2 {
				return fmt.Sprintf("_lexerMode%d state %d: row shorter than its header", mi, si)
			}
			flags, n := row[0], int(row[1])
			if flags > 1 {
				return fmt.Sprintf("_lexerMode%d state %d: unknown flag bits %d", mi, si, flags)
			}
			if 2+3*n > len(row) || (len(row)-2-3*n)%2 != 0 {
				return fmt.Sprintf("_lexerMode%d state %d: gotoCount %d inconsistent with row length %d", mi, si, n, len(row))
			}
			prevHi := int64(-1)
			for k := 0; k < n; k++ {
				lo, hi, to := int64(row[2+3*k]), int64(row[3+3*k]), int(row[4+3*k])
				if lo > hi || hi > 0x10FFFF {
					return fmt.Sprintf("_lexerMode%d state %d: bad range [%X,%X]", mi, si, lo, hi)
				}
				if lo <= prevHi {
					return fmt.Sprintf("_lexerMode%d state %d: ranges not sorted and disjoint at [%X,%X] (previous ends at %X)", mi, si, lo, hi, prevHi)
				}
				prevHi = hi
				if to < 0 || to >= len(rows) {
					return fmt.Sprintf("_lexerMode%d state %d: target state %d out of range", mi, si, to)
				}
			}
			acts := row[2+3*n:]
			for k := 0; k < len(acts); k += 2 {
				if acts[k] < 1 || acts[k] > 5 {
					return fmt.Sprintf("_lexerMode%d state %d: action code %d", mi, si, acts[k])
				}
				if acts[k] == 1 && int(acts[k+1]) >= nmodes {
					return fmt.Sprintf("_lexerMode%d state %d: push_mode to mode %d of %d", mi, si, acts[k+1], nmodes)
				}
			}
			if flags == 1 && len(acts) == 0 {
				return fmt.Sprintf("_lexerMode%d state %d: non-greedy-accepting flag on a state without actions", mi, si)
			}
			// compare with the DFA object
			st := m.DFA.States[si]
			if int(st.ID) != si {
				return fmt.Sprintf("mode %d: DFA state at position %d has ID %d", mi, si, st.ID)
			}
			type edge struct {
				lo, hi rune
				to     uint32
			}
			var edges []edge
			st.Transitions.ForEach(func(in any, to *dfa.State) {
				r := in.(rang3.Range)
				edges = append(edges, edge{r.B, r.E, to.ID})
			})
			sort.Slice(edges, func(i, j int) bool { return edges[i].lo < edges[j].lo })
			if len(edges) != n {
				return fmt.Sprintf("_lexerMode%d state %d: %d ranges emitted, DFA state has %d transitions", mi, si, n, len(edges))
			}
			for k, e := range edges {
				if uint32(e.lo) != row[2+3*k] || uint32(e.hi) != row[3+3*k] || e.to != row[4+3*k] {
					return fmt.Sprintf("_lexerMode%d state %d: range %d emitted as [%X,%X]->%d, DFA has [%X,%X]->%d", mi, si, k, row[2+3*k], row[3+3*k], row[4+3*k], e.lo, e.hi, e.to)
				}
			}
			wantFlag := uint32(0)
			if st.Accept && st.NonGreedy {
				wantFlag = 1
			}
			if flags != wantFlag {
				return fmt.Sprintf("_lexerMode%d state %d: flag %d, DFA state accept=%v nongreedy=%v", mi, si, flags, st.Accept, st.NonGreedy)
			}
			var want []uint32
			if a, ok := st.Data.(*mode.Actions); ok && a != nil {
				for _, x := range a.Actions {
					switch x.Type {
					case mode.ActionPushMode:
						tm := b.DFAs[x.Mode]
						if tm == nil {
							return fmt.Sprintf("mode %d state %d pushes unknown mode %q", mi, si, x.Mode)
						}
						want = append(want, 1, uint32(tm.Index))
					case mode.ActionPopMode:
						want = append(want, 2, 0)
					case mode.ActionAccept:
						want = append(want, 3, uint32(x.Terminal))
					case mode.ActionDiscard:
						want = append(want, 4, 0)
					case mode.ActionAccum:
						want = append(want, 5, 0)
					}
				}
			}
			if fmt.Sprint(want) != fmt.Sprint([]uint32(acts)) {
				return fmt.Sprintf("_lexerMode%d state %d: actions emitted %v, DFA state has %v", mi, si, acts, want)
			}
		}
	}
	return ""
}

// checkParserTables compares the decoded _actions/_goto/_rules/_termCounts with
// the ParserTable object they were emitted from: every (state, terminal) ->
// action, every (state, rule) -> goto, nothing extra.
func checkParserTables(b *px.Built) string {
	t := b.Res.V.Table
	g := b.Res.V.Grammar
	arows, err := px.DecodeRows(b.Actions)
	if err != nil {
		return "_actions: " + err.Error()
	}
	grows, err := px.DecodeRows(b.Goto)
	if err != nil {
		return "_goto: " + err.Error()
	}
	if len(arows) != len(t.States) || len(grows) != len(t.States) {
		return fmt.Sprintf("_actions has %d rows, _goto %d, the automaton has %d states", len(arows), len(grows), len(t.States))
	}
	if len(b.Rules) != len(g.Prods) || len(b.TermCounts) != len(g.Prods) {
		return fmt.Sprintf("_rules/_termCounts have %d/%d entries, %d productions", len(b.Rules), len(b.TermCounts), len(g.Prods))
	}
	for i, p := range g.Prods {
		if int(b.Rules[i]) != p.Rule.Index {
			return fmt.Sprintf("_rules[%d]=%d, production belongs to rule %d", i, b.Rules[i], p.Rule.Index)
		}
		if int(b.TermCounts[i]) != len(p.Terms) {
			return fmt.Sprintf("_termCounts[%d]=%d, production has %d terms", i, b.TermCounts[i], len(p.Terms))
		}
	}
	for si, st := range t.States {
		if st.Index != si {
			return fmt.Sprintf("state at position %d has index %d", si, st.Index)
		}
		row := arows[si]
		if len(row)%2 != 0 {
			return fmt.Sprintf("_actions row %d has odd length", si)
		}
		got := map[int32]int32{}
		for k := 0; k < len(row); k += 2 {
			if _, dup := got[row[k]]; dup {
				return fmt.Sprintf("_actions row %d: terminal %d twice", si, row[k])
			}
			got[row[k]] = row[k+1]
		}
		am := t.Actions(st)
		n := 0
		for _, term := range am.Terminals() {
			as := am.Get(term)
			if as.Len() != 1 {
				return fmt.Sprintf("state %d on %s: %d actions in an accepted grammar", si, term.Name, as.Len())
			}
			a := as.Get(0)
			var want int32
			switch a.Type {
			case lr1.ActionShift:
				want = int32(a.ShiftState.Index)
			case lr1.ActionReduce:
				want = -int32(a.Prods[0].Index)
			case lr1.ActionAccept:
				want = math.MaxInt32
			}
			v, ok := got[int32(term.Index)]
			if !ok || v != want {
				return fmt.Sprintf("_actions state %d on %s(%d): emitted %v (present=%v), automaton %d", si, term.Name, term.Index, v, ok, want)
			}
			n++
		}
		if n != len(got) {
			return fmt.Sprintf("_actions row %d has %d entries, the automaton %d", si, len(got), n)
		}
		grow := grows[si]
		if len(grow)%2 != 0 {
			return fmt.Sprintf("_goto row %d has odd length", si)
		}
		gg := map[int32]int32{}
		for k := 0; k < len(grow); k += 2 {
			gg[grow[k]] = grow[k+1]
		}
		tr := t.Transitions(st)
		n = 0
		for _, in := range tr.Inputs() {
			r, ok := in.(*lr1.Rule)
			if !ok {
				continue
			}
			n++
			if v, ok := gg[int32(r.Index)]; !ok || int(v) != tr.Get(r).Index {
				return fmt.Sprintf("_goto state %d on %s: emitted %v (present=%v), automaton %d", si, r.Name, v, ok, tr.Get(r).Index)
			}
		}
		if n != len(gg) || 2*n != len(grow) {
			return fmt.Sprintf("_goto row %d has %d entries, the automaton %d", si, len(grow)/2, n)
		}
	}
	return ""
}

// ---------------------------------------------------------------------------
// C10 as a check of its own: it re-runs, under its own id, the table-level
// obligations on the specification families of the other checks.

func c10Worker(c *mc.Ctx) {
	ws := pipe.NewWorkspace("c10")
	defer ws.Close()
	// Lexer side: structure, equality with the DFA object, and equivalence
	// with the rules over all strings (product search).
	leaves := lexref.StdLeaves()
	cards := []int{lexref.COpt, lexref.CStar, lexref.CPlus}
	p1, p2, p3 := lexref.NewPool(leaves, cards, 1), lexref.NewPool(leaves, cards, 2), lexref.NewPool(leaves, cards, 3)
	type lfam struct {
		name  string
		size  int64
		get   func(i int64) *lexref.Spec
		limit int64
		dom   func(*lexref.Compiled) (bool, string)
	}
	anySpec := func(*lexref.Compiled) (bool, string) { return true, "" }
	var lf []lfam
	rs := func(name string, r *lexref.RuleSets, limit int64) {
		// C10 is about every accepted specification: rules that can match the empty string included
		lf = append(lf, lfam{name, r.Size(), r.Get, limit, anySpec})
	}
	if c.Quick() {
		// single rules up to size 3: nested repetitions (epsilon cycles in the NFA) appear here
		rs("r1-s3", &lexref.RuleSets{Pools: []*lexref.Pool{p3}, Kinds: 2}, 0)
		rs("r2-s2", &lexref.RuleSets{Pools: []*lexref.Pool{p2, p2}, Kinds: 2}, 0)
		rs("r3-s1", &lexref.RuleSets{Pools: []*lexref.Pool{p1, p1, p1}, Kinds: 2}, 0)
	} else {
		rs("r1-s5", &lexref.RuleSets{Pools: []*lexref.Pool{lexref.NewPool(leaves, cards, 5)}, Kinds: 2}, 60000)
		rs("r2-s3", &lexref.RuleSets{Pools: []*lexref.Pool{p3, p3}, Kinds: 2}, 300000)
		rs("r3-s2s1", &lexref.RuleSets{Pools: []*lexref.Pool{p2, p2, p1}, Kinds: 2}, 300000)
	}
	for _, f := range c07Spaces(true) {
		f := f
		lf = append(lf, lfam{"modes-" + f.name, f.sp.Size(), f.sp.Get, 20000, anySpec})
	}
	// repetitions of sequences of nullable terms: cycles of epsilon edges in the NFA
	nl := nullableLoopSpecs(c.Quick())
	lf = append(lf, lfam{"nullable-loops", int64(len(nl)), func(i int64) *lexref.Spec { return nl[i] }, 0, anySpec})
	for _, f := range lf {
		n := f.size
		if f.limit > 0 && f.limit < n {
			c.Stats.Cap(fmt.Sprintf("%s: first %d of %d specifications", f.name, f.limit, n))
			n = f.limit
		}
		for i := int64(0); i < n; i++ {
			if !c.Mine(i) {
				continue
			}
			s := f.get(i)
			if len(c.Stats.Samples) < 2 && i%499 == 17 {
				c.Stats.Sample(map[string]any{"family": f.name, "lexer_spec": s.OneLine()})
			}
			for _, v := range c02One(ws, f.name, i, s, 1, &c.Stats, "C10", f.dom) {
				c.Stats.Violate(v)
			}
		}
	}
	// non-greedy rules: the flag word of a row (stop consuming here) is part of
	// the table; every 5th specification of C08's family (thorough: all)
	step := int64(5)
	if !c.Quick() {
		step = 1
	}
	for i, cs := range c08Specs(c.Quick()) {
		if int64(i)%step != 0 || !c.Mine(int64(i)/step) {
			continue
		}
		for _, v := range c08One(ws, int64(i), cs.spec, 3, &c.Stats) {
			if v.Property == "C08" {
				v.Property = "C10"
			}
			v.Check = "C10"
			c.Stats.Violate(v)
		}
	}
	c10Real(c, ws, "C10")
	c10TableRoundTrip(c)
	// Parser side: decoded arrays equal the automaton object exactly.
	pf := []family{
		{Name: "plain", Space: gen.NewSpace(2, 2, 2, 2, false)},
		{Name: "sugar", Space: gen.NewSpace(2, 2, 2, 2, false), Sugar: true, Limit: 4000},
		{Name: "error", Space: gen.NewSpace(2, 2, 2, 2, true), Limit: 60000},
	}
	if !c.Quick() {
		pf = []family{
			{Name: "plain-l3", Space: gen.NewSpace(2, 2, 2, 3, false)},
			{Name: "plain3", Space: gen.NewSpace(3, 2, 2, 2, false), Limit: 6000000},
			{Name: "sugar", Space: gen.NewSpace(2, 2, 2, 2, false), Sugar: true},
			{Name: "error", Space: gen.NewSpace(2, 2, 2, 2, true)},
		}
	}
	for _, fam := range pf {
		fam := fam
		fam.each(c, func(idx int64, g *gen.Grammar) {
			b := px.Build(ws, g, px.NB)
			if b.Status == px.Broken {
				c.Stats.HarnessError("grammar {%s}: %s", g.String(), b.Problem)
				return
			}
			if b.Status != px.Accepted {
				return
			}
			c.Stats.Evaluations++
			c.Stats.Validated++
			c.Stats.Add("parser_tables_checked", 1)
			t := b.Res.V.Table
			c.Stats.States += int64(len(t.States))
			for _, st := range t.States {
				c.Stats.Transitions += int64(len(t.Transitions(st).Inputs()))
			}
			if len(t.States) > 4 {
				c.Stats.Nontrivial++
			}
			if p := checkParserTables(b); p != "" {
				c.Stats.Violate(mc.Violation{Property: "C10", Check: "C10", Kind: "parser-table", Size: len(g.String()),
					Case: mkCase(fam.Name, idx, g, 0, nil), Detail: "grammar {" + g.String() + "}: " + p})
			}
		})
	}
}

func c10Replay(raw json.RawMessage) *mc.Violation {
	var probe struct {
		Spec    *lexref.Spec `json:"spec"`
		Grammar *gen.Grammar `json:"grammar"`
	}
	if err := json.Unmarshal(raw, &probe); err != nil {
		return &mc.Violation{Property: "C10", Kind: "bad-replay", Detail: err.Error()}
	}
	if probe.Spec != nil {
		var lc lexCase
		if json.Unmarshal(raw, &lc); lc.Family == "ng" {
			// a specification of the non-greedy family: the reference needs its semantics
			v := c08Replay(raw)
			if v != nil {
				if v.Property == "C08" {
					v.Property = "C10"
				}
				v.Check = "C10"
			}
			return v
		}
		return lexReplay("C10", func(*lexref.Compiled) (bool, string) { return true, "" })(raw)
	}
	var real struct {
		Real string `json:"real"`
		Path []int  `json:"path"`
	}
	if json.Unmarshal(raw, &real); real.Real != "" {
		// a bundled specification: run its checks again, report what is found for it
		// (the same push sequence first, if it fails again)
		ws := pipe.NewWorkspace("c10r")
		defer ws.Close()
		ctx := &mc.Ctx{NShards: 1}
		c10Real(ctx, ws, "C10")
		var first *mc.Violation
		for i := range ctx.Stats.Violations {
			v := &ctx.Stats.Violations[i]
			var r2 struct {
				Real string `json:"real"`
				Path []int  `json:"path"`
			}
			json.Unmarshal(v.Case, &r2)
			if r2.Real != real.Real {
				continue
			}
			if fmt.Sprint(r2.Path) == fmt.Sprint(real.Path) {
				return v
			}
			if first == nil {
				first = v
			}
		}
		return first
	}
	var rt struct {
		Rows [][]int32 `json:"rows"`
	}
	if json.Unmarshal(raw, &rt); rt.Rows != nil {
		arr := codegen.VerifTableArray(rt.Rows)
		dec, err := px.DecodeRows(arr)
		if err != nil || len(dec) != len(rt.Rows) {
			return &mc.Violation{Property: "C10", Check: "C10", Kind: "table-row-sharing", Detail: fmt.Sprint("rows ", rt.Rows, " decode to ", dec, " ", err)}
		}
		for i := range dec {
			if fmt.Sprint(dec[i]) != fmt.Sprint(rt.Rows[i]) {
				return &mc.Violation{Property: "C10", Check: "C10", Kind: "table-row-sharing", Detail: fmt.Sprint("rows ", rt.Rows, " decode to ", dec)}
			}
		}
		return nil
	}
	ws := pipe.NewWorkspace("c10r")
	defer ws.Close()
	b := px.Build(ws, probe.Grammar, px.NB)
	if b.Status != px.Accepted {
		return nil
	}
	if p := checkParserTables(b); p != "" {
		return &mc.Violation{Property: "C10", Check: "C10", Kind: "parser-table", Detail: p}
	}
	return nil
}

func init() {
	mc.Register(&mc.Check{
		ID:    "C10",
		Level: "model_checking",
		Rule: "lexer: rule sets and mode graphs of the C02/C07 families; every emitted _lexerModeN is read back by its documented row format (structure: offsets inside the table, row lengths, sorted disjoint ranges in [0,0x10FFFF], targets and action codes in range, flag only on accepting rows), compared state by state and edge by edge with the DFA object it was emitted from, and the real state machine running on it is searched in product with the reference automaton of the rules (all strings); " +
			"parser: accepted grammars of the C01/C09 families; decoded _actions/_goto/_rules/_termCounts equal the automaton object entry for entry, nothing extra (their equality with the reference LALR(1) automaton is C04's); states/transitions = product nodes/edges plus parser automaton states/edges",
		Assume: []string{"documented row format as written in the generated PushRune/_Find comments", "reference: internal/lexref"},
		Worker: c10Worker,
		Replay: c10Replay,
	})
}

// ---------------------------------------------------------------------------
// Real-world specifications: lox's own parser.lox and the bundled examples.
// Their syntax trees are taken from lox's front-end parser and translated to
// the harness's model (internal/fromast); the meaning is the harness's.

type realSpec struct {
	name  string
	files map[string]string
	spec  *lexref.Spec
}

func realSpecs() ([]realSpec, []string) {
	var out []realSpec
	var problems []string
	for _, d := range []string{"internal/parser", "examples/calc", "examples/jsonc", "examples/bolox"} {
		m, _ := filepath.Glob(root.RepoPath(d) + "/*.lox")
		sort.Strings(m)
		files := map[string]string{}
		var units []*loxast.Unit
		fset := gotoken.NewFileSet()
		ok := true
		for _, f := range m {
			data, err := os.ReadFile(f)
			if err != nil {
				ok = false
				continue
			}
			files[filepath.Base(f)] = string(data)
			var diag bytes.Buffer
			errs := errlogger.New(fset, &diag)
			u := loxparser.Parse(fset.AddFile(f, -1, len(data)), data, errs)
			if errs.HasError() || u == nil {
				problems = append(problems, d+": "+firstLine(diag.String()))
				ok = false
				continue
			}
			units = append(units, u)
		}
		if !ok || len(units) == 0 {
			continue
		}
		s, err := fromast.Spec(units)
		if err != nil {
			problems = append(problems, d+": "+err.Error())
			continue
		}
		out = append(out, realSpec{name: d, files: files, spec: s})
	}
	return out, problems
}

// c10Real runs the table checks and the product search on the real-world
// specifications (C08's semantics: they contain non-greedy rules).
func c10Real(c *mc.Ctx, ws *pipe.Workspace, property string) {
	specs, problems := realSpecs()
	for _, p := range problems {
		c.Stats.HarnessError("real-world specification: %s", p)
	}
	for i, rs := range specs {
		if !c.Mine(int64(i)) {
			continue
		}
		b := lx.BuildText(ws, rs.files, rs.spec)
		if b.Status != lx.Accepted {
			c.Stats.HarnessError("real-world specification %s: %s %s %s", rs.name, b.Status, b.Problem, firstLine(b.Res.Diag))
			continue
		}
		c.Stats.Evaluations++
		c.Stats.Validated++
		c.Stats.Nontrivial++
		if prob := checkLexTables(b); prob != "" {
			c.Stats.Violate(mc.Violation{Property: "C10", Check: property, Kind: "lexer-table-real", Size: i, Case: mustJSON(map[string]any{"real": rs.name}), Detail: rs.name + ": " + prob})
		}
		pr := lx.Product(b, px.NB, lx.ProductOpts{MaxDepth: 3, StopAtError: true, CompareEvents: true, NGStop: ngStop, IsNG: ruleIsNG, MaxStates: 400000})
		c.Stats.States += int64(pr.States)
		c.Stats.Transitions += int64(pr.Transitions)
		c.Stats.Add("real_world_product_states", int64(pr.States))
		c.Stats.Add("ambiguous_decisions_followed", int64(pr.Ambiguous))
		if pr.StateCapped {
			c.Stats.Cap(rs.name + ": product state cap reached")
		}
		c.Stats.Sample(map[string]any{"real_world_spec": rs.name, "modes": len(rs.spec.Modes), "product_states": pr.States, "product_transitions": pr.Transitions, "atoms": len(b.C.Atoms)})
		for _, mm := range pr.Mismatches {
			c.Stats.Violate(mc.Violation{Property: property, Check: property, Kind: "real-product-" + mm.Kind, Size: len(mm.Path), Case: mustJSON(map[string]any{"real": rs.name, "path": mm.Path}),
				Detail: fmt.Sprintf("%s after pushing %s: %s", rs.name, mm.PathText(), mm.Detail)})
		}
		gr := lx.ImplGraph(b, px.NB, 3)
		c.Stats.Add("real_world_configurations", int64(gr.States))
		for _, mm := range gr.Mismatches {
			c.Stats.Violate(mc.Violation{Property: "C11", Check: property, Kind: "real-graph-" + mm.Kind, Size: len(mm.Path), Case: mustJSON(map[string]any{"real": rs.name, "path": mm.Path}),
				Detail: fmt.Sprintf("%s after pushing %s: %s", rs.name, mm.PathText(), mm.Detail)})
		}
	}
}

// c10TableRoundTrip: every pair of rows over a small universe of cell values
// (one-, two- and three-digit numbers whose decimal renderings are prefixes of
// each other, negative values, the accept code) goes through the repository's
// row-sharing table; the decoded rows must be the rows put in, so rows are
// shared only when identical.
func c10TableRoundTrip(c *mc.Ctx) {
	vals := []int32{0, 1, 2, 10, 11, 12, 100, 101, 110, 111, -1, -11, math.MaxInt32}
	var rows [][]int32
	var rec func(cur []int32)
	rec = func(cur []int32) {
		rows = append(rows, append([]int32(nil), cur...))
		if len(cur) == 3 {
			return
		}
		for _, v := range vals {
			rec(append(cur[:len(cur):len(cur)], v))
		}
	}
	rec(nil)
	n := int64(0)
	for i, a := range rows {
		if !c.Mine(int64(i)) {
			continue
		}
		for _, b := range rows {
			n++
			arr := codegen.VerifTableArray([][]int32{a, b, a})
			dec, err := px.DecodeRows(arr)
			bad := ""
			if err != nil {
				bad = err.Error()
			} else if len(dec) != 3 || fmt.Sprint(dec[0]) != fmt.Sprint(a) || fmt.Sprint(dec[1]) != fmt.Sprint(b) || fmt.Sprint(dec[2]) != fmt.Sprint(a) {
				bad = fmt.Sprintf("decoded rows %v", dec)
			}
			if bad != "" {
				c.Stats.Violate(mc.Violation{Property: "C10", Check: "C10", Kind: "table-row-sharing", Size: len(a) + len(b), Case: mustJSON(map[string]any{"rows": [][]int32{a, b, a}}),
					Detail: fmt.Sprintf("rows %v, %v, %v put into the row-sharing table come back as something else: %s", a, b, a, bad)})
				return
			}
		}
	}
	c.Stats.Evaluations += n
	c.Stats.Add("table_round_trips", n)
}
