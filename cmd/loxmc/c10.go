package main

import (
	"fmt"
	"math"
	"sort"

	"github.com/dcaiafa/lox/internal/lexergen/dfa"
	"github.com/dcaiafa/lox/internal/lexergen/mode"
	"github.com/dcaiafa/lox/internal/lexergen/rang3"
	"github.com/dcaiafa/lox/internal/parsergen/lr1"
	"github.com/dcaiafa/lox/verif/internal/lx"
	"github.com/dcaiafa/lox/verif/internal/px"
)

// checkLexTables reads every emitted _lexerModeN by the documented row format
// (flags, gotoCount, gotoCount x (lo, hi, target), then (actionType,
// actionParam) pairs), checks its structure, and compares it state by state
// and edge by edge with the mode.Mode DFA object it was emitted from. It
// returns "" or a description of the first problem.
func checkLexTables(b *lx.Built) string {
	nmodes := len(b.Modes)
	byIndex := make([]*mode.Mode, nmodes)
	for _, m := range b.DFAs {
		if m.Index < 0 || m.Index >= nmodes {
			return fmt.Sprintf("mode %q has index %d, %d tables emitted", m.Name, m.Index, nmodes)
		}
		if byIndex[m.Index] != nil {
			return fmt.Sprintf("two modes share index %d", m.Index)
		}
		byIndex[m.Index] = m
	}
	for mi, tbl := range b.Modes {
		rows, err := px.DecodeRows(tbl)
		if err != nil {
			return fmt.Sprintf("_lexerMode%d: %v", mi, err)
		}
		m := byIndex[mi]
		if m == nil {
			return fmt.Sprintf("_lexerMode%d has no mode object", mi)
		}
		if len(rows) != len(m.DFA.States) {
			return fmt.Sprintf("_lexerMode%d has %d rows, its DFA has %d states", mi, len(rows), len(m.DFA.States))
		}
		for si, row := range rows {
			if row == nil {
				return fmt.Sprintf("_lexerMode%d: state %d has no row", mi, si)
			}
			if len(row) < 2 {
				return fmt.Sprintf("_lexerMode%d state %d: row shorter than its header", mi, si)
			}
			flags, n := row[0], int(row[1])
			if flags > 1 {
				return fmt.Sprintf("_lexerMode%d state %d: unknown flag bits %d", mi, si, flags)
			}
			if 2+3*n > len(row) || (len(row)-2-3*n)%2 != 0 {
				return fmt.Sprintf("_lexerMode%d state %d: gotoCount %d inconsistent with row length %d", mi, si, n, len(row))
			}
			prevHi := int64(-1)
			for k := 0; k < n; k++ {
				lo, hi, to := int64(row[2+3*k]), int64(row[3+3*k]), int(row[4+3*k])
				if lo > hi || hi > 0x10FFFF {
					return fmt.Sprintf("_lexerMode%d state %d: bad range [%X,%X]", mi, si, lo, hi)
				}
				if lo <= prevHi {
					return fmt.Sprintf("_lexerMode%d state %d: ranges not sorted and disjoint at [%X,%X] (previous ends at %X)", mi, si, lo, hi, prevHi)
				}
				prevHi = hi
				if to < 0 || to >= len(rows) {
					return fmt.Sprintf("_lexerMode%d state %d: target state %d out of range", mi, si, to)
				}
			}
			acts := row[2+3*n:]
			for k := 0; k < len(acts); k += 2 {
				if acts[k] < 1 || acts[k] > 5 {
					return fmt.Sprintf("_lexerMode%d state %d: action code %d", mi, si, acts[k])
				}
				if acts[k] == 1 && int(acts[k+1]) >= nmodes {
					return fmt.Sprintf("_lexerMode%d state %d: push_mode to mode %d of %d", mi, si, acts[k+1], nmodes)
				}
			}
			if flags == 1 && len(acts) == 0 {
				return fmt.Sprintf("_lexerMode%d state %d: non-greedy-accepting flag on a state without actions", mi, si)
			}
			// compare with the DFA object
			st := m.DFA.States[si]
			if int(st.ID) != si {
				return fmt.Sprintf("mode %d: DFA state at position %d has ID %d", mi, si, st.ID)
			}
			type edge struct {
				lo, hi rune
				to     uint32
			}
			var edges []edge
			st.Transitions.ForEach(func(in any, to *dfa.State) {
				r := in.(rang3.Range)
				edges = append(edges, edge{r.B, r.E, to.ID})
			})
			sort.Slice(edges, func(i, j int) bool { return edges[i].lo < edges[j].lo })
			if len(edges) != n {
				return fmt.Sprintf("_lexerMode%d state %d: %d ranges emitted, DFA state has %d transitions", mi, si, n, len(edges))
			}
			for k, e := range edges {
				if uint32(e.lo) != row[2+3*k] || uint32(e.hi) != row[3+3*k] || e.to != row[4+3*k] {
					return fmt.Sprintf("_lexerMode%d state %d: range %d emitted as [%X,%X]->%d, DFA has [%X,%X]->%d", mi, si, k, row[2+3*k], row[3+3*k], row[4+3*k], e.lo, e.hi, e.to)
				}
			}
			wantFlag := uint32(0)
			if st.Accept && st.NonGreedy {
				wantFlag = 1
			}
			if flags != wantFlag {
				return fmt.Sprintf("_lexerMode%d state %d: flag %d, DFA state accept=%v nongreedy=%v", mi, si, flags, st.Accept, st.NonGreedy)
			}
			var want []uint32
			if a, ok := st.Data.(*mode.Actions); ok && a != nil {
				for _, x := range a.Actions {
					switch x.Type {
					case mode.ActionPushMode:
						tm := b.DFAs[x.Mode]
						if tm == nil {
							return fmt.Sprintf("mode %d state %d pushes unknown mode %q", mi, si, x.Mode)
						}
						want = append(want, 1, uint32(tm.Index))
					case mode.ActionPopMode:
						want = append(want, 2, 0)
					case mode.ActionAccept:
						want = append(want, 3, uint32(x.Terminal))
					case mode.ActionDiscard:
						want = append(want, 4, 0)
					case mode.ActionAccum:
						want = append(want, 5, 0)
					}
				}
			}
			if fmt.Sprint(want) != fmt.Sprint([]uint32(acts)) {
				return fmt.Sprintf("_lexerMode%d state %d: actions emitted %v, DFA state has %v", mi, si, acts, want)
			}
		}
	}
	return ""
}

// checkParserTables compares the decoded _actions/_goto/_rules/_termCounts with
// the ParserTable object they were emitted from: every (state, terminal) ->
// action, every (state, rule) -> goto, nothing extra.
func checkParserTables(b *px.Built) string {
	t := b.Res.V.Table
	g := b.Res.V.Grammar
	arows, err := px.DecodeRows(b.Actions)
	if err != nil {
		return "_actions: " + err.Error()
	}
	grows, err := px.DecodeRows(b.Goto)
	if err != nil {
		return "_goto: " + err.Error()
	}
	if len(arows) != len(t.States) || len(grows) != len(t.States) {
		return fmt.Sprintf("_actions has %d rows, _goto %d, the automaton has %d states", len(arows), len(grows), len(t.States))
	}
	if len(b.Rules) != len(g.Prods) || len(b.TermCounts) != len(g.Prods) {
		return fmt.Sprintf("_rules/_termCounts have %d/%d entries, %d productions", len(b.Rules), len(b.TermCounts), len(g.Prods))
	}
	for i, p := range g.Prods {
		if int(b.Rules[i]) != p.Rule.Index {
			return fmt.Sprintf("_rules[%d]=%d, production belongs to rule %d", i, b.Rules[i], p.Rule.Index)
		}
		if int(b.TermCounts[i]) != len(p.Terms) {
			return fmt.Sprintf("_termCounts[%d]=%d, production has %d terms", i, b.TermCounts[i], len(p.Terms))
		}
	}
	for si, st := range t.States {
		if st.Index != si {
			return fmt.Sprintf("state at position %d has index %d", si, st.Index)
		}
		row := arows[si]
		if len(row)%2 != 0 {
			return fmt.Sprintf("_actions row %d has odd length", si)
		}
		got := map[int32]int32{}
		for k := 0; k < len(row); k += 2 {
			if _, dup := got[row[k]]; dup {
				return fmt.Sprintf("_actions row %d: terminal %d twice", si, row[k])
			}
			got[row[k]] = row[k+1]
		}
		am := t.Actions(st)
		n := 0
		for _, term := range am.Terminals() {
			as := am.Get(term)
			if as.Len() != 1 {
				return fmt.Sprintf("state %d on %s: %d actions in an accepted grammar", si, term.Name, as.Len())
			}
			a := as.Get(0)
			var want int32
			switch a.Type {
			case lr1.ActionShift:
				want = int32(a.ShiftState.Index)
			case lr1.ActionReduce:
				want = -int32(a.Prods[0].Index)
			case lr1.ActionAccept:
				want = math.MaxInt32
			}
			v, ok := got[int32(term.Index)]
			if !ok || v != want {
				return fmt.Sprintf("_actions state %d on %s(%d): emitted %v (present=%v), automaton %d", si, term.Name, term.Index, v, ok, want)
			}
			n++
		}
		if n != len(got) {
			return fmt.Sprintf("_actions row %d has %d entries, the automaton %d", si, len(got), n)
		}
		grow := grows[si]
		if len(grow)%2 != 0 {
			return fmt.Sprintf("_goto row %d has odd length", si)
		}
		gg := map[int32]int32{}
		for k := 0; k < len(grow); k += 2 {
			gg[grow[k]] = grow[k+1]
		}
		tr := t.Transitions(st)
		n = 0
		for _, in := range tr.Inputs() {
			r, ok := in.(*lr1.Rule)
			if !ok {
				continue
			}
			n++
			if v, ok := gg[int32(r.Index)]; !ok || int(v) != tr.Get(r).Index {
				return fmt.Sprintf("_goto state %d on %s: emitted %v (present=%v), automaton %d", si, r.Name, v, ok, tr.Get(r).Index)
			}
		}
		if n != len(gg) || 2*n != len(grow) {
			return fmt.Sprintf("_goto row %d has %d entries, the automaton %d", si, len(grow)/2, n)
		}
	}
	return ""
}
