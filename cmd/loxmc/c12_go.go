package main

import (
	"encoding/json"
	"fmt"
	goscanner "go/scanner"
	gotoken "go/token"
	"strings"

	"github.com/dcaiafa/lox/verif/internal/mc"
	"github.com/dcaiafa/lox/verif/internal/pipe"
)

// Go side of C12: deviations of bound 1 around a well-formed user package
// (the .lox file stays fixed), through the whole pipeline with the in-process
// ParseGo. The statement quantifies over "any Go package": lox must answer
// with complete output or with a diagnostic, whatever the package looks like.

const c12GoLox = "@lexer\nNUM = [0-9]+\nADD = '+'\nSEMI = ';'\nCOMMA = ','\nLP = '('\nRP = ')'\nLB = '['\nRB = ']'\n@frag [ \\n]+ @discard\n@parser\n@start prog = stmt*\nstmt = e ';'? | @error COMMA\ne = e ADD t @left(1) | t\nt = NUM | LP @list(e, COMMA)? RP | LB NUM+ RB\n"

const c12GoUser = `package carrier

import "fmt"

type Token struct {
	Type int
	Idx  int
}

type Node interface{ String() string }

type num struct{ t Token }

func (n num) String() string { return fmt.Sprint(n.t.Idx) }

type parser struct {
	lox
	depth int
}

func (p *parser) on_prog(ss []Node) Node { return num{} }

func (p *parser) on_stmt(e Node, semi Token) Node { return e }

func (p *parser) on_stmt__err(e Error, c Token) Node { return num{t: e.Token} }

func (p *parser) on_e__add(a Node, _ Token, b Node) Node { return a }

func (p *parser) on_e(a Node) Node { return a }

func (p *parser) on_t__num(n Token) Node { return num{t: n} }

func (p *parser) on_t__call(_ Token, args []Node, _ Token) Node { return num{} }

func (p *parser) on_t__nums(_ Token, ns []Token, _ Token) Node { return num{} }

func (p *parser) _onBounds(r any, b, e Token) {}

func (p *parser) helper() int { return p.depth }
`

// what an identifier or a type can be replaced by
var c12GoMenu = []string{
	"any", "int", "Token", "*Token", "[]Token", "[]Node", "Error", "*Error", "func()", "struct{}", "chan Token", "map[string]Token", "Undefined",
	"lox", "*lox", "parser", "*parser", "Node", "[]any", "...Node", "[2]Node", "interface{ String() string }",
	"on_e", "on_e__add", "on_", "on_e__", "on__e", "on_E", "on_e__a__b", "on_zzz", "_onBounds", "_onbounds", "on_stmt__err", "on_t", "_", "p", "String",
	"0", "\"s\"", "nil",
}

type c12GoCase struct {
	GoMut string `json:"go_mutation"`
	User  string `json:"user_go"`
}

func c12RunGo(ws *pipe.Workspace, user string) (kind, detail string) {
	res := ws.RunFast(&pipe.Spec{Lox: map[string]string{"g.lox": c12GoLox}, Go: map[string]string{"user.go": user}}, nil)
	switch {
	case res.Panic != "":
		return "panic", "generator panicked: " + firstLines(res.Panic, 6)
	case !res.OK && strings.TrimSpace(res.Diag) == "":
		return "silent-failure", "generation failed at " + res.Stage + " without any diagnostic"
	case res.OK && (res.Base == "" || res.Lexer == "" || res.Parser == ""):
		return "partial-output", "lox reported success but a generated file is missing"
	}
	if res.OK {
		return "ok", ""
	}
	return "", ""
}

func c12GoAxis(c *mc.Ctx, ws *pipe.Workspace, n *int64) {
	if kind, detail := c12RunGo(ws, c12GoUser); kind != "ok" {
		c.Stats.HarnessError("the seed user package of the Go axis is not accepted: %s %s", kind, detail)
		return
	}
	type tok struct {
		off, end int
		lit      string
		ident    bool
	}
	var toks []tok
	fset := gotoken.NewFileSet()
	file := fset.AddFile("user.go", -1, len(c12GoUser))
	var s goscanner.Scanner
	s.Init(file, []byte(c12GoUser), nil, 0)
	for {
		pos, t, lit := s.Scan()
		if t == gotoken.EOF {
			break
		}
		if t == gotoken.SEMICOLON && lit == "\n" {
			continue
		}
		if lit == "" {
			lit = t.String()
		}
		off := file.Offset(pos)
		toks = append(toks, tok{off, off + len(lit), lit, t == gotoken.IDENT})
	}
	accepted := int64(0)
	try := func(mut, user string) {
		*n++
		if !c.Mine(*n) {
			return
		}
		if c.Touch != nil {
			c.Touch("go axis: " + mut)
		}
		c.Stats.Evaluations++
		c.Stats.Add("go_package_deviations", 1)
		kind, detail := c12RunGo(ws, user)
		if kind == "ok" {
			accepted++
			return
		}
		if kind != "" {
			raw, _ := json.Marshal(c12GoCase{GoMut: mut, User: user})
			c.Stats.Violate(mc.Violation{Property: "C12", Check: "C12", Kind: "go-" + kind + ":" + classifyPanic(detail), Size: len(user), Case: raw,
				Detail: fmt.Sprintf("user package with one deviation (%s): %s", mut, detail)})
		}
	}
	src := c12GoUser
	for i, t := range toks {
		c.Stats.Nontrivial++
		try(fmt.Sprintf("delete token #%d %q", i, t.lit), src[:t.off]+src[t.end:])
		try(fmt.Sprintf("duplicate token #%d %q", i, t.lit), src[:t.end]+" "+t.lit+src[t.end:])
		if t.ident || t.lit == "interface" || t.lit == "struct" {
			for _, m := range c12GoMenu {
				try(fmt.Sprintf("replace token #%d %q by %q", i, t.lit, m), src[:t.off]+m+src[t.end:])
			}
		}
	}
	lines := strings.SplitAfter(src, "\n")
	for i := range lines {
		if strings.TrimSpace(lines[i]) == "" {
			continue
		}
		try(fmt.Sprintf("delete line %d", i+1), strings.Join(lines[:i], "")+strings.Join(lines[i+1:], ""))
		try(fmt.Sprintf("duplicate line %d", i+1), strings.Join(lines[:i+1], "")+lines[i]+strings.Join(lines[i+1:], ""))
		try(fmt.Sprintf("move line %d to the end", i+1), strings.Join(lines[:i], "")+strings.Join(lines[i+1:], "")+lines[i])
	}
	for cut := 0; cut < len(src); cut += 7 {
		try(fmt.Sprintf("truncate at byte %d", cut), src[:cut])
	}
	c.Stats.Add("go_package_deviations_accepted", accepted)
}

func c12GoReplay(raw json.RawMessage) (*mc.Violation, bool) {
	var gc c12GoCase
	if json.Unmarshal(raw, &gc) != nil || gc.GoMut == "" {
		return nil, false
	}
	ws := pipe.NewWorkspace("c12gr")
	defer ws.Close()
	kind, detail := c12RunGo(ws, gc.User)
	if kind == "" || kind == "ok" {
		return nil, true
	}
	return &mc.Violation{Property: "C12", Check: "C12", Kind: "go-" + kind + ":" + classifyPanic(detail), Detail: fmt.Sprintf("user package with one deviation (%s): %s", gc.GoMut, detail)}, true
}
