package main

import (
	"encoding/json"
	"fmt"
	"reflect"

	"github.com/dcaiafa/lox/verif/internal/cfgref"
	"github.com/dcaiafa/lox/verif/internal/ctypes"
	"github.com/dcaiafa/lox/verif/internal/gen"
	"github.com/dcaiafa/lox/verif/internal/mc"
	"github.com/dcaiafa/lox/verif/internal/pipe"
	"github.com/dcaiafa/lox/verif/internal/px"
)

type c16Params struct {
	fams []family
	L    int
	Lerr int // error inputs (tokens + ERROR) up to this length, crash freedom / exactly-once only
}

func c16Families(quick bool) c16Params {
	if quick {
		return c16Params{
			fams: []family{
				{Name: "plain", Space: gen.NewSpace(2, 2, 2, 2, false)},
				{Name: "plain3", Space: gen.NewSpace(3, 2, 2, 2, false), Limit: 300000},
				{Name: "sugar", Space: gen.NewSpace(2, 2, 2, 2, false), Sugar: true, Limit: 5000},
				{Name: "error", Space: gen.NewSpace(2, 2, 2, 2, true), Limit: 60000},
			},
			L: 6, Lerr: 4,
		}
	}
	return c16Params{
		fams: []family{
			{Name: "plain", Space: gen.NewSpace(2, 2, 2, 2, false)},
			{Name: "plain-l3", Space: gen.NewSpace(2, 2, 2, 3, false), Limit: 3000000},
			{Name: "plain3", Space: gen.NewSpace(3, 2, 2, 2, false), Limit: 3000000},
			{Name: "sugar", Space: gen.NewSpace(2, 2, 2, 2, false), Sugar: true},
			{Name: "error", Space: gen.NewSpace(2, 2, 2, 2, true)},
		},
		L: 7, Lerr: 5,
	}
}

// leaves collects the token leaves (input indices) of a node; nErr counts
// Error leaves.
func leaves(c *ctypes.Carrier, x any, idx *[]int, nErr *int) {
	switch v := x.(type) {
	case ctypes.Token:
		*idx = append(*idx, v.Idx)
	case *ctypes.Node:
		for _, k := range v.Kids {
			leaves(c, k, idx, nErr)
		}
	default:
		if _, _, ok := c.AsError(x); ok {
			*nErr++
		}
	}
}

// edgeKinds reports whether the first and the last leaf of a node are tokens
// (false: an Error symbol, whose extent the statement does not define).
func edgeKinds(c *ctypes.Carrier, x any) (firstTok, lastTok bool) {
	var seq []bool
	var walk func(x any)
	walk = func(x any) {
		switch v := x.(type) {
		case ctypes.Token:
			seq = append(seq, true)
		case *ctypes.Node:
			for _, k := range v.Kids {
				walk(k)
			}
		default:
			if _, _, ok := c.AsError(x); ok {
				seq = append(seq, false)
			}
		}
	}
	walk(x)
	if len(seq) == 0 {
		return false, false
	}
	return seq[0], seq[len(seq)-1]
}

// nestedMaxLen: inputs up to this length get the nested-parser pass.
const nestedMaxLen = 4

func c16Explore(bn, bb *px.Built, rn, rb *px.Runner, fam string, idx int64, prm c16Params, st *mc.Stats, only []int) []mc.Violation {
	g := bn.G
	var out []mc.Violation
	report := func(kind string, w []int, detail string) {
		if len(out) >= 3 {
			return
		}
		out = append(out, mc.Violation{Property: "C16", Check: "C16", Kind: kind, Size: len(g.String())*1000 + len(w),
			Case: mkCase(fam, idx, g, prm.L, w), Detail: fmt.Sprintf("grammar {%s} input %s: %s", g.String(), inputText(g, w), detail)})
	}
	if !reflect.DeepEqual(bn.Actions, bb.Actions) || !reflect.DeepEqual(bn.Goto, bb.Goto) || !reflect.DeepEqual(bn.Rules, bb.Rules) || !reflect.DeepEqual(bn.TermCounts, bb.TermCounts) {
		report("tables-differ", nil, "defining _onBounds changed the emitted parser tables")
		return out
	}
	rn.NStates, rb.NStates = len(bn.Actions), len(bb.Actions)
	rb.ResetCounts()
	nCalls := 0
	check := func(w []int) {
		st.Evaluations++
		bn.Install(rn.C)
		on := rn.Run(w)
		bb.Install(rb.C)
		ob := rb.Run(w)
		switch {
		case ob.Panic != "":
			report("parser-panic", w, "parser with _onBounds panicked: "+ob.Panic)
			return
		case ob.Hang != "":
			report("parser-hang-"+ob.HangKind, w, ob.Hang)
			return
		case ob.Incon || on.Incon || on.Panic != "" || on.Hang != "":
			st.Inconcl++
			return
		}
		// presence changes nothing else
		if on.OK != ob.OK || on.Reads != ob.Reads {
			report("changes-parse", w, fmt.Sprintf("without _onBounds parse()=%v after %d reads, with _onBounds parse()=%v after %d reads", on.OK, on.Reads, ob.OK, ob.Reads))
			return
		}
		var pn, pb []int32
		for _, e := range on.Events {
			if e.Kind == ctypes.EvReduce {
				pn = append(pn, e.Prod)
			}
		}
		for _, e := range ob.Events {
			if e.Kind == ctypes.EvReduce {
				pb = append(pb, e.Prod)
			}
		}
		if !reflect.DeepEqual(pn, pb) {
			report("changes-parse", w, fmt.Sprintf("reduction sequence without _onBounds %v, with %v", pn, pb))
			return
		}
		evs := ob.Events
		for i := 0; i < len(evs); i++ {
			e := evs[i]
			if e.Kind == ctypes.EvBounds {
				report("stray-call", w, fmt.Sprintf("_onBounds call #%d does not follow a reduction", i))
				return
			}
			var idx []int
			nErr := 0
			leaves(rb.C, e.N, &idx, &nErr)
			hasNext := i+1 < len(evs) && evs[i+1].Kind == ctypes.EvBounds
			prodStr := fmt.Sprintf("%s = %v", bb.ProdRule[e.Prod], bb.ProdTerms[e.Prod])
			if len(idx) == 0 && nErr > 0 {
				// only @error leaves: the statement defines spans over derived tokens
				if hasNext {
					i++
				}
				continue
			}
			if len(idx) == 0 {
				if hasNext {
					report("call-for-empty", w, fmt.Sprintf("_onBounds was called for a reduction of {%s} that derives nothing", prodStr))
					return
				}
				continue
			}
			if !hasNext {
				report("missing-call", w, fmt.Sprintf("no _onBounds call right after the reduction of {%s} deriving tokens #%d..#%d", prodStr, idx[0], idx[len(idx)-1]))
				return
			}
			bd := evs[i+1]
			i++
			nCalls++
			if i+1 < len(evs) && evs[i+1].Kind == ctypes.EvBounds {
				report("double-call", w, fmt.Sprintf("_onBounds called twice for one reduction of {%s}", prodStr))
				return
			}
			if res, ok := bd.Res.(*ctypes.Node); !ok || res != e.N {
				report("wrong-result", w, fmt.Sprintf("_onBounds for {%s} did not receive that action's result", prodStr))
				return
			}
			if nErr > 0 {
				// spans mixing tokens and @error: an end of the span that is a token
				// (not the Error symbol) is still determined
				ft, lt := edgeKinds(rb.C, e.N)
				if ft && (bd.Begin.Idx != idx[0] || bd.Begin.Type != w[idx[0]]) {
					report("wrong-span", w, fmt.Sprintf("_onBounds for {%s} (after error recovery): begin=#%d, but the reduction's first symbol is the input token #%d", prodStr, bd.Begin.Idx, idx[0]))
					return
				}
				if lt && (bd.End.Idx != idx[len(idx)-1] || bd.End.Type != w[idx[len(idx)-1]]) {
					report("wrong-span", w, fmt.Sprintf("_onBounds for {%s} (after error recovery): end=#%d, but the reduction's last symbol is the input token #%d", prodStr, bd.End.Idx, idx[len(idx)-1]))
					return
				}
				continue
			}
			if bd.Begin.Idx != idx[0] || bd.End.Idx != idx[len(idx)-1] {
				report("wrong-span", w, fmt.Sprintf("_onBounds for {%s}: begin=#%d end=#%d, derived span is #%d..#%d", prodStr, bd.Begin.Idx, bd.End.Idx, idx[0], idx[len(idx)-1]))
				return
			}
			if bd.Begin.Type != w[idx[0]] || bd.End.Type != w[idx[len(idx)-1]] {
				report("wrong-span", w, fmt.Sprintf("_onBounds for {%s}: begin/end tokens are not the input tokens at #%d/#%d", prodStr, idx[0], idx[len(idx)-1]))
				return
			}
		}
	}
	// The value an action returns must not decide whether its reduction is
	// reported: the same input again with every (then every other) generic
	// action returning a nil interface value gives the same sequence of
	// reductions and _onBounds calls with the same spans.
	starF := false
	for _, r := range g.Rules {
		for _, a := range r.Alts {
			for _, t := range a.Terms {
				if t.S == gen.StarF {
					starF = true // elements of x*! must have Discard(): a nil element is not a legal result there
				}
			}
		}
	}
	plain := check
	sig := func(evs []ctypes.Ev) []string {
		var out []string
		for _, e := range evs {
			if e.Kind == ctypes.EvReduce {
				out = append(out, fmt.Sprintf("reduce %d", e.Prod))
			} else {
				out = append(out, fmt.Sprintf("bounds #%d..#%d", e.Begin.Idx, e.End.Idx))
			}
		}
		return out
	}
	check = func(w []int) {
		n0 := len(out)
		plain(w)
		if starF || len(out) > n0 {
			return
		}
		bb.Install(rb.C)
		ref := rb.Run(w)
		if ref.Panic != "" || ref.Hang != "" || ref.Incon {
			return
		}
		for mode, f := range []func(prod int32) bool{func(int32) bool { return true }, func(p int32) bool { return p%2 == 0 }} {
			rb.NilRes = f
			o := rb.Run(w)
			rb.NilRes = nil
			st.Evaluations++
			if o.Panic != "" {
				report("parser-panic", w, fmt.Sprintf("with actions returning nil (mode %d) the parser panicked: %s", mode, o.Panic))
				return
			}
			if o.Hang != "" || o.Incon {
				continue
			}
			if a, b := sig(ref.Events), sig(o.Events); o.OK != ref.OK || !reflect.DeepEqual(a, b) {
				report("result-dependent-call", w, fmt.Sprintf("with actions returning a nil interface value (mode %d) the reductions / _onBounds calls are %v (parse()=%v); with non-nil results they are %v (parse()=%v)", mode, b, o.OK, a, ref.OK))
				return
			}
		}
		// Parser values are independent: with the action of the k-th reduction
		// parsing the same input with a parser value of its own, both parses make
		// the reductions and _onBounds calls the parse makes alone.
		if len(w) <= nestedMaxLen {
			nred := 0
			for _, e := range ref.Events {
				if e.Kind == ctypes.EvReduce {
					nred++
				}
			}
			want := sig(ref.Events)
			for k := 0; k < nred && k < 8; k++ {
				o, ran, innerOK, innerEvs := rb.RunNested(w, k, w)
				st.Evaluations++
				st.Add("nested_parses", 1)
				if o.Panic != "" {
					report("parser-panic", w, fmt.Sprintf("with the action of reduction #%d parsing the same input with a second parser value: %s", k, o.Panic))
					return
				}
				if o.Hang != "" || o.Incon || !ran {
					continue
				}
				if got := sig(o.Events); o.OK != ref.OK || !reflect.DeepEqual(got, want) {
					report("nested-parser-interferes", w, fmt.Sprintf("with the action of reduction #%d parsing the same input with a second parser value, the outer parse's reductions / _onBounds calls are %v (parse()=%v); alone they are %v (parse()=%v)", k, got, o.OK, want, ref.OK))
					return
				}
				if got := sig(innerEvs); innerOK != ref.OK || !reflect.DeepEqual(got, want) {
					report("nested-parser-interferes", w, fmt.Sprintf("with the action of reduction #%d parsing the same input with a second parser value, the inner parse's reductions / _onBounds calls are %v (parse()=%v); alone they are %v (parse()=%v)", k, got, innerOK, want, ref.OK))
					return
				}
			}
		}
		// .. nor may the *type* of a result: an action is free to return a Token it
		// made up, a *Token, or an Error it was given.
		kindName := []string{"", "", "a Token value", "an Error value", "a *Token"}
		for _, kind := range []int{2, 3, 4} {
			for mode, sel := range []func(p int32) bool{func(int32) bool { return true }, func(p int32) bool { return p%2 == 1 }} {
				kind, sel := kind, sel
				rb.ResKind = func(p int32) int {
					if sel(p) {
						return kind
					}
					return 0
				}
				o := rb.Run(w)
				rb.ResKind = nil
				st.Evaluations++
				if o.Panic != "" {
					report("parser-panic", w, fmt.Sprintf("with actions returning %s (mode %d) the parser panicked: %s", kindName[kind], mode, o.Panic))
					return
				}
				if o.Hang != "" || o.Incon {
					continue
				}
				if a, b := sig(ref.Events), sig(o.Events); o.OK != ref.OK || !reflect.DeepEqual(a, b) {
					report("result-type-dependent-call", w, fmt.Sprintf("with actions returning %s (mode %d) the reductions / _onBounds calls are %v (parse()=%v); with other results they are %v (parse()=%v)", kindName[kind], mode, b, o.OK, a, ref.OK))
					return
				}
			}
		}
	}
	if only != nil {
		check(only)
		return out
	}
	cfg := cfgref.FromGrammar(g)
	sent := cfg.Sent(prm.L)[cfg.Start]
	for _, s := range cfgref.SortedStrings(sent) {
		w := make([]int, len(s))
		bad := false
		for i := range s {
			if int(s[i]) == cfgref.ErrSym {
				bad = true
			}
			w[i] = int(s[i]) - cfgref.TokOff + 2
		}
		if bad {
			continue
		}
		check(w)
	}
	// error inputs: exactly-once and crash freedom
	alphabet := []int{loxERROR}
	for i := range g.Toks {
		alphabet = append(alphabet, px.LoxTok(i))
	}
	forStrings(alphabet, prm.Lerr, check)
	st.States += int64(len(rb.Configs))
	st.Transitions += rb.Steps
	st.Add("onbounds_calls_checked", int64(nCalls))
	if nCalls >= 3 {
		st.Nontrivial++
	}
	return out
}

func c16Interesting(g *gen.Grammar) bool {
	cfg := cfgref.FromGrammar(g)
	for s := cfg.NT; s < len(cfg.Names); s++ {
		if cfg.Nullable(s) {
			return true
		}
	}
	return false
}

func c16Worker(c *mc.Ctx) {
	prm := c16Families(c.Quick())
	ws := pipe.NewWorkspace("c16")
	defer ws.Close()
	rn, rb := px.NewRunner(px.NB), px.NewRunner(px.B)
	for _, fam := range prm.fams {
		fam := fam
		fam.each(c, func(idx int64, g *gen.Grammar) {
			if !c16Interesting(g) {
				return
			}
			bb := px.Build(ws, g, px.B)
			switch bb.Status {
			case px.Conflicts, px.Rejected:
				return
			case px.Panicked:
				c.Stats.Violate(mc.Violation{Property: "C12", Check: "C16", Kind: "generator-panic", Size: len(g.String()),
					Case: mkCase(fam.Name, idx, g, prm.L, nil), Detail: "generator panicked on {" + g.String() + "}: " + firstLine(bb.Res.Panic)})
				return
			case px.Broken:
				c.Stats.HarnessError("grammar {%s} (bounds variant): %s", g.String(), bb.Problem)
				return
			}
			bn := px.Build(ws, g, px.NB)
			if bn.Status != px.Accepted {
				c.Stats.Violate(mc.Violation{Property: "C16", Check: "C16", Kind: "changes-verdict", Size: len(g.String()),
					Case: mkCase(fam.Name, idx, g, prm.L, nil), Detail: "grammar {" + g.String() + "} accepted with _onBounds, " + bn.Status + " without"})
				return
			}
			c.Stats.Validated++
			if len(c.Stats.Samples) < 3 && len(g.Rules) > 1 {
				c.Stats.Sample(map[string]any{"family": fam.Name, "grammar": g.String(), "sentences_up_to": prm.L})
			}
			for _, v := range c16Explore(bn, bb, rn, rb, fam.Name, idx, prm, &c.Stats, nil) {
				c.Stats.Violate(v)
			}
		})
	}
}

func c16Replay(raw json.RawMessage) *mc.Violation {
	var gc grammarCase
	if err := json.Unmarshal(raw, &gc); err != nil {
		return &mc.Violation{Property: "C16", Kind: "bad-replay", Detail: err.Error()}
	}
	ws := pipe.NewWorkspace("c16r")
	defer ws.Close()
	bb := px.Build(ws, gc.Grammar, px.B)
	bn := px.Build(ws, gc.Grammar, px.NB)
	if bb.Status != px.Accepted || bn.Status != px.Accepted {
		return nil
	}
	var w []int
	for _, n := range gc.Input {
		w = append(w, tokIndex(gc.Grammar, n))
	}
	if w == nil {
		w = []int{}
	}
	var st mc.Stats
	vs := c16Explore(bn, bb, px.NewRunner(px.NB), px.NewRunner(px.B), gc.Family, gc.Index, c16Params{L: gc.L}, &st, w)
	if len(vs) == 0 {
		return nil
	}
	return &vs[0]
}

func init() {
	mc.Register(&mc.Check{
		ID:    "C16",
		Level: "model_checking",
		Rule: "grammars: members of the counter-enumerated spaces (plain, three-rule, one-sugar, @error) with at least one nullable non-terminal, accepted by lox; inputs: every sentence up to the length bound (spans checked) and every string over tokens+ERROR up to a smaller bound (exactly-once, crash freedom); " +
			"run on the second template variant (bounds carrier) and on the plain carrier for the 'changes nothing else' comparison; every input again with all (then every other) generic actions returning a nil interface value: same reductions, same _onBounds calls and spans; non-trivial = grammar with >= 3 checked _onBounds calls; states = distinct parser configurations of the bounds variant",
		Assume: []string{
			"spans are computed from the tree the generic action builds from the real stack (its correspondence with the derivation is C01/C03's subject)",
			"reductions whose yield consists only of @error leaves are outside the statement (spans are defined over derived tokens)",
		},
		Worker: c16Worker,
		Replay: c16Replay,
	})
}
