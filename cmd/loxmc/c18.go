package main

import (
	_ "embed"
	"encoding/json"
	"fmt"
	"os"
	"strings"
	"time"

	"github.com/dcaiafa/lox/verif/internal/instr"
	"github.com/dcaiafa/lox/verif/internal/mc"
	"github.com/dcaiafa/lox/verif/internal/pipe"
	"github.com/dcaiafa/lox/verif/internal/st3"
)

const c18LoxA = `@lexer
ID = [a-z]+
NUM = [0-9]+
SEMI = ';'
LP = '('
RP = ')'
COMMA = ','
PLUS = '+'
@frag [ \n]+ @discard
STRB = '"' @push_mode(Str)
@frag '{' @push_mode(Cm) @discard
@mode Str {
  STRE = '"' @pop_mode
  CH = ~["]+
}
@mode Cm {
  @frag '{' @push_mode(Cm) @discard
  @frag '}' @pop_mode @discard
  @frag ~[{}]+ @discard
}

@parser
@start prog = stmt*
stmt = ID '(' @list(expr, ',')? ')' ';'
     | @error ';'
expr = expr '+' term @left(1)
     | term
term = NUM | ID | STRB CH? STRE | '(' expr ')'
`

const c18LoxB = `@lexer
NAME = [A-Z] [a-z]*
INT = [0-9]+
EQ = '='
DOT = '.'
@frag [ \n]+ @discard

@parser
@start list = item+
item = INT DOT | NAME '=' INT DOT | @error DOT
`

// Common part of the user packages: token, a small lexer driver over the
// generated state machine (same protocol as the reference driver), trace.
const c18Common = `
import (
	"fmt"
	"strings"
	"unicode/utf8"
)

type Token struct {
	Type int
	Str  string
	Pos  int
}

type driver struct {
	sm     *_LexerStateMachine
	in     string
	offset int
	char   rune
	width  int
}

func newDriver(in string) *driver {
	d := &driver{sm: new(_LexerStateMachine), in: in}
	d.consume()
	return d
}

func (d *driver) consume() {
	d.offset += d.width
	if d.offset >= len(d.in) {
		d.char, d.width = -1, 0
		return
	}
	d.char, d.width = utf8.DecodeRuneInString(d.in[d.offset:])
}

func (d *driver) ReadToken() (Token, int) {
	start := -1
	for {
		if start == -1 {
			start = d.offset
		}
		switch d.sm.PushRune(d.char) {
		case _lexerConsume:
			d.consume()
		case _lexerAccept:
			t := Token{Type: d.sm.Token(), Str: d.in[start:d.offset], Pos: start}
			return t, t.Type
		case _lexerDiscard:
			start = -1
		case _lexerTryAgain:
		case _lexerEOF:
			return Token{Type: EOF, Pos: start}, EOF
		default:
			t := Token{Type: ERROR, Pos: start}
			for d.char != '\n' && d.char != -1 {
				d.consume()
			}
			d.consume()
			d.sm.Reset()
			return t, ERROR
		}
	}
}

type parser struct {
	lox
	trace []string
}

func (p *parser) log(f string, a ...any) string {
	s := fmt.Sprintf(f, a...)
	p.trace = append(p.trace, s)
	return s
}

func (p *parser) _onBounds(r any, b, e Token) {
	p.trace = append(p.trace, fmt.Sprintf("bounds(%v:%d-%d)", r, b.Pos, e.Pos+len(e.Str)))
}

// Parse lexes and parses one input with fresh instances and returns everything
// observable.
func Parse(in string) string {
	p := &parser{}
	ok := p.parse(newDriver(in))
	return fmt.Sprintf("ok=%v|%s", ok, strings.Join(p.trace, "|"))
}

// Lex only lexes.
func Lex(in string) string {
	d := newDriver(in)
	var out []string
	for i := 0; i < 200; i++ {
		t, typ := d.ReadToken()
		out = append(out, fmt.Sprintf("%s:%q@%d", _TokenToString(typ), t.Str, t.Pos))
		if typ == EOF {
			break
		}
	}
	return strings.Join(out, " ")
}
`

const c18UserA = `package ga
` + c18Common + `
func (p *parser) on_prog(ss []string) string { return p.log("prog%v", ss) }
func (p *parser) on_stmt(id Token, _ Token, args []string, _ Token, _ Token) string {
	return p.log("call(%s %v)", id.Str, args)
}
func (p *parser) on_stmt__err(e Error, _ Token) string {
	return p.log("error(%s@%d expected %v)", _TokenToString(e.Token.Type), e.Token.Pos, e.Expected)
}
func (p *parser) on_expr(l string, _ Token, r string) string { return p.log("(%s+%s)", l, r) }
func (p *parser) on_expr__t(t string) string              { return t }
func (p *parser) on_term(t Token) string                   { return p.log("%s", t.Str) }
func (p *parser) on_term__str(_ Token, c Token, _ Token) string {
	return p.log("str(%q)", c.Str)
}
func (p *parser) on_term__par(_ Token, e string, _ Token) string { return p.log("par(%s)", e) }
`

const c18UserB = `package gb
` + c18Common + `
func (p *parser) on_list(items []string) string { return p.log("list%v", items) }
func (p *parser) on_item(n Token, _ Token) string { return p.log("int(%s)", n.Str) }
func (p *parser) on_item__set(n Token, _ Token, v Token, _ Token) string {
	return p.log("set(%s=%s)", n.Str, v.Str)
}
func (p *parser) on_item__err(e Error, _ Token) string {
	return p.log("error(%s@%d expected %v)", _TokenToString(e.Token.Type), e.Token.Pos, e.Expected)
}
`

//go:embed schedsrc.go.txt
var c18SchedSrc string

const c18Main = `package main

import (
	"encoding/json"
	"os"
	"strconv"

	"example.com/st3/ga"
	"example.com/st3/gb"
	"example.com/st3/sched"
)

func snapshot() uint64 {
	h := uint64(1469598103934665603)
	sched.Mix(&h, ga.VSnapshot())
	sched.Mix(&h, gb.VSnapshot())
	return h
}

func main() {
	bound, _ := strconv.Atoi(os.Getenv("C18_BOUND"))
	maxExec, _ := strconv.Atoi(os.Getenv("C18_MAXEXEC"))
	stateful, _ := strconv.Atoi(os.Getenv("C18_STATEFUL"))
	a1 := func() string { return ga.Parse("f(1, x+2);g();") }
	a2 := func() string { return ga.Parse("f(1 2); h(\"s\" + 3;\n ok(z);") }
	a3 := func() string { return ga.Parse("k(\"q\");") }
	a4 := func() string { return ga.Parse("p(1 2);q(;") }
	a5 := func() string { return ga.Parse("r(+);") }
	b2 := func() string { return gb.Parse("= 1. Zz.") }
	b1 := func() string { return gb.Parse("1. Ab=2. 3 3. 4.") }
	l1 := func() string { return ga.Lex("f(\"a b\", 12) $ x") }
	// deep nesting: the parse stack and the mode stack grow past any initial
	// capacity (growth policies are a place where instances could meet)
	deep := func(open, close string, n int) string {
		var s string
		for i := 0; i < n; i++ {
			s += open
		}
		s += "1"
		for i := 0; i < n; i++ {
			s += close
		}
		return s
	}
	a6 := func() string { return ga.Parse("f(" + deep("(", ")", 36) + ");") }
	l2 := func() string { return ga.Lex(deep("{", "}", 36) + " x") }
	scenarios := []*sched.Scenario{
		{Name: "2 threads, same grammar, second with error recovery, _onBounds", Bodies: []func() string{a1, a2}},
		{Name: "2 threads, two grammars linked in one program", Bodies: []func() string{a2, b1}},
		{Name: "2 threads, same grammar, both in error recovery", Bodies: []func() string{a4, a5}},
		{Name: "2 threads, two grammars, both in error recovery", Bodies: []func() string{a5, b2}},
		{Name: "lexer-only thread and parser thread sharing the mode tables", Bodies: []func() string{l1, a3}},
		{Name: "3 threads: same grammar twice and another grammar", Bodies: []func() string{a3, a1, b1}},
		{Name: "2 threads, same grammar, one with a parse stack 36 deep", Bodies: []func() string{a6, a3}},
		{Name: "lexer-only thread with a mode stack 36 deep and a parser thread", Bodies: []func() string{l2, a3}},
	}
	// short inputs: the deeper bound and the stateful search complete on these
	s1 := func() string { return ga.Parse("f(1);") }
	s2 := func() string { return ga.Parse("g(2 3);") }
	s3 := func() string { return gb.Parse("7. = 1.") }
	short := []*sched.Scenario{
		{Name: "short: 2 threads, same grammar, one in error recovery", Bodies: []func() string{s1, s2}},
		{Name: "short: 2 threads, two grammars, both in error recovery", Bodies: []func() string{s2, s3}},
	}
	enc := json.NewEncoder(os.Stdout)
	for _, s := range scenarios {
		s.Snapshot = snapshot
		b := bound
		if b > 1 {
			b = 1 // long inputs: bound 1 completes; bound 2 is run on the short scenarios
		}
		enc.Encode(s.Explore(b, maxExec))
	}
	for _, s := range short {
		s.Snapshot = snapshot
		r := s.Explore(bound, maxExec)
		if stateful > 0 && len(r.Violations) == 0 {
			s.Stateful(r, stateful)
		}
		enc.Encode(r)
	}
}
`

const c18RaceMain = `package main

import (
	"fmt"
	"os"
	"sync"

	"example.com/st3/ga"
	"example.com/st3/gb"
)

func deep(open, close string, n int) string {
	var s string
	for i := 0; i < n; i++ {
		s += open
	}
	s += "1"
	for i := 0; i < n; i++ {
		s += close
	}
	return s
}

func main() {
	bodies := []func() string{
		func() string { return ga.Parse("f(1, x+2);g();") },
		func() string { return ga.Parse("f(1 2); h(\"s\" + 3;\n ok(z);") },
		func() string { return gb.Parse("1. Ab=2. 3 3. 4.") },
		func() string { return ga.Lex("f(\"a b\", 12) $ x") },
		func() string { return ga.Parse("f(" + deep("(", ")", 40) + ");") },
		func() string { return ga.Lex(deep("{", "}", 40) + " x") },
		func() string { return ga.Parse("f(" + deep("(", ")", 70) + ");") },
	}
	// The concurrent phase comes FIRST, in a process that has not parsed anything
	// yet: state that is built or grown on first use is then touched by several
	// goroutines at once. The reference outputs are computed afterwards.
	const G, N = 8, 200
	outs := make([][]string, G)
	var wg sync.WaitGroup
	for g := 0; g < G; g++ {
		wg.Add(1)
		go func(g int) {
			defer wg.Done()
			for i := 0; i < N; i++ {
				outs[g] = append(outs[g], bodies[(g+i)%len(bodies)]())
			}
		}(g)
	}
	wg.Wait()
	var solo []string
	for _, b := range bodies {
		solo = append(solo, b())
	}
	bad := 0
	for g := 0; g < G; g++ {
		for i, o := range outs[g] {
			if k := (g + i) % len(bodies); o != solo[k] {
				if bad < 3 {
					fmt.Printf("MISMATCH body %d: %s\n   solo: %s\n", k, o, solo[k])
				}
				bad++
			}
		}
	}
	fmt.Printf("runs=%d mismatches=%d\n", G*N, bad)
	if bad > 0 {
		os.Exit(3)
	}
}
`

func c18Packages(ws *pipe.Workspace, instrument bool) ([]st3.Pkg, int, string) {
	var pkgs []st3.Pkg
	points := 0
	for _, p := range []struct{ name, lox, user string }{{"ga", c18LoxA, c18UserA}, {"gb", c18LoxB, c18UserB}} {
		res := ws.RunFast(&pipe.Spec{Lox: map[string]string{"g.lox": p.lox}, Go: map[string]string{"user.go": p.user}}, importerFor())
		if !res.OK || res.Panic != "" {
			return nil, 0, fmt.Sprintf("generation of package %s failed: %s %s", p.name, firstLine(res.Diag), firstLine(res.Panic))
		}
		files := map[string]string{"user.go": p.user}
		var vars []string
		gen := map[string]string{"base.gen.go": res.Base, "lexer.gen.go": res.Lexer, "parser.gen.go": res.Parser}
		for _, n := range []string{"base.gen.go", "lexer.gen.go", "parser.gen.go"} {
			src := gen[n]
			if !instrument {
				files[n] = src
				continue
			}
			out, vs, pts, err := instr.Ticks(n, src, true)
			if err != nil {
				return nil, 0, err.Error()
			}
			files[n] = out
			vars = append(vars, vs...)
			points += pts
		}
		if instrument {
			var b strings.Builder
			fmt.Fprintf(&b, "package %s\n\nimport \"example.com/st3/sched\"\n\nfunc _vtick() { sched.Point() }\n\n// VSnapshot hashes every package-level variable of the generated files.\nfunc VSnapshot() uint64 {\n\th := uint64(1469598103934665603)\n", p.name)
			for _, v := range vars {
				fmt.Fprintf(&b, "\tsched.Mix(&h, %q)\n\tsched.Mix(&h, %s)\n", v, v)
			}
			b.WriteString("\treturn h\n}\n")
			files["vtick_gen.go"] = b.String()
		}
		pkgs = append(pkgs, st3.Pkg{Name: p.name, Files: files})
	}
	return pkgs, points, ""
}

type c18Report struct {
	Scenario       string `json:"scenario"`
	Threads        int    `json:"threads"`
	Bound          int    `json:"preemption_bound"`
	Executions     int    `json:"executions"`
	Points         int    `json:"scheduling_points_first_execution"`
	Steps          int64  `json:"steps"`
	DistinctPerThr []int  `json:"distinct_outcomes_per_thread"`
	States         int    `json:"states"`
	Transitions    int    `json:"transitions"`
	StatefulDone   bool   `json:"stateful_search_complete"`
	Violations     []struct {
		Kind     string `json:"kind"`
		Schedule []int  `json:"schedule"`
		Thread   int    `json:"thread"`
		Got      string `json:"got"`
		Want     string `json:"want"`
	} `json:"violations"`
	Solo        []string `json:"solo_outcomes"`
	Capped      string   `json:"capped"`
	Determinism string   `json:"replay_determinism"`
}

func c18Worker(c *mc.Ctx) {
	ws := pipe.NewWorkspace("c18")
	defer ws.Close()
	// bound = preemption bound for the short scenarios; the long ones always run bound 1
	bound, maxExec, stateful := 2, 600000, 120000
	if c.Quick() {
		bound, maxExec, stateful = 1, 40000, 0
	}
	// (1) exploration under the cooperative scheduler
	pkgs, points, perr := c18Packages(ws, true)
	if perr != "" {
		c.Stats.HarnessError("%s", perr)
		return
	}
	pkgs = append(pkgs, st3.Pkg{Name: "sched", Files: map[string]string{"sched.go": c18SchedSrc}})
	r := st3.Run("c18", pkgs, c18Main, false, []string{fmt.Sprint("C18_BOUND=", bound), fmt.Sprint("C18_MAXEXEC=", maxExec), fmt.Sprint("C18_STATEFUL=", stateful), "GOMAXPROCS=2"})
	if r.BuildErr != "" {
		c.Stats.HarnessError("stage-3 build (instrumented): %s", strings.Join(head(strings.Split(r.BuildErr, "\n"), 5), " | "))
		return
	}
	if r.Stopped != "" {
		c.Stats.Inconcl++
		c.Stats.Cap("the schedule explorer was stopped by the safety net (" + r.Stopped + "): nothing is concluded from it")
		return
	}
	if r.RunErr != "" {
		c.Stats.HarnessError("stage-3 run: %s %s", r.RunErr, firstLine(r.Stderr))
		return
	}
	c.Stats.Add("tick_sites_inserted", int64(points))
	dec := json.NewDecoder(strings.NewReader(string(r.Stdout)))
	for dec.More() {
		var rep c18Report
		if err := dec.Decode(&rep); err != nil {
			c.Stats.HarnessError("stage-3 output: %v", err)
			return
		}
		c.Stats.Evaluations += int64(rep.Executions)
		c.Stats.Transitions += rep.Steps + int64(rep.Transitions)
		c.Stats.States += int64(rep.States) + int64(rep.Points)
		c.Stats.Validated += int64(rep.Executions)
		c.Stats.Nontrivial++
		if rep.Capped != "" {
			c.Stats.Cap(rep.Scenario + ": " + rep.Capped)
		}
		if rep.Determinism != "ok" {
			c.Stats.HarnessError("scenario %q: %s", rep.Scenario, rep.Determinism)
		}
		c.Stats.Sample(map[string]any{"scenario": rep.Scenario, "threads": rep.Threads, "preemption_bound_completed": rep.Bound, "schedules_executed": rep.Executions,
			"scheduling_points_in_default_schedule": rep.Points, "distinct_outcomes_per_thread": rep.DistinctPerThr, "stateful_states": rep.States, "stateful_complete": rep.StatefulDone})
		for _, v := range rep.Violations {
			if v.Kind == "harness-divergence" {
				c.Stats.HarnessError("scenario %q: %s", rep.Scenario, v.Got)
				continue
			}
			c.Stats.Violate(mc.Violation{Property: "C18", Check: "C18", Kind: "schedule:" + v.Kind, Size: len(v.Schedule),
				Case:   mustJSON(map[string]any{"scenario": rep.Scenario, "schedule": v.Schedule, "kind": v.Kind}),
				Detail: c18Detail(rep.Scenario, v.Kind, len(v.Schedule), v.Thread, v.Got, v.Want)})
		}
	}
	// (2) free-running race pass on the UNMODIFIED generated code
	rp, _, perr := c18Packages(ws, false)
	if perr != "" {
		c.Stats.HarnessError("%s", perr)
		return
	}
	st3.RunLimit = 5 * time.Minute // on the unchanged tree the pass takes seconds
	rr := st3.Run("c18race", rp, c18RaceMain, true, []string{"GORACE=halt_on_error=1"})
	switch {
	case rr.BuildErr != "":
		c.Stats.HarnessError("stage-3 build (-race): %s", firstLine(rr.BuildErr))
	case rr.Stopped != "" && !strings.Contains(rr.Stderr, "DATA RACE"):
		c.Stats.Inconcl++
		c.Stats.Cap("the free-running -race pass was stopped by the safety net (" + rr.Stopped + ") without a race report: nothing is concluded from it")
	case strings.Contains(rr.Stderr, "DATA RACE"):
		c.Stats.Violate(mc.Violation{Property: "C18", Check: "C18", Kind: "data-race", Size: 1, Case: mustJSON(map[string]any{"pass": "race"}),
			Detail: "the race detector reports a data race between concurrently running generated parsers/lexers: " + raceSummary(rr.Stderr)})
	case rr.RunErr != "":
		c.Stats.Violate(mc.Violation{Property: "C18", Check: "C18", Kind: "free-running-mismatch", Size: 2, Case: mustJSON(map[string]any{"pass": "race"}),
			Detail: "free-running goroutines produced results different from running alone: " + clip(string(rr.Stdout), 600)})
	default:
		c.Stats.Add("free_running_race_pass_runs", 1600)
		c.Stats.Evaluations += 1600
	}
}

func c18Detail(scenario, kind string, steps, thread int, got, want string) string {
	if strings.HasPrefix(kind, "package-level-state-changed") {
		return fmt.Sprintf("scenario %q: the hash of all package-level variables of the generated files changed while parsers ran (schedule of %d steps): generated code keeps mutable state outside its instances", scenario, steps)
	}
	return fmt.Sprintf("scenario %q, schedule of %d steps: %s (thread %d): got %s, running alone gives %s", scenario, steps, kind, thread, clip(got, 300), clip(want, 300))
}

func clip(s string, n int) string {
	if len(s) > n {
		return s[:n] + "..."
	}
	return s
}

func raceSummary(stderr string) string {
	var keep []string
	for _, l := range strings.Split(stderr, "\n") {
		l = strings.TrimSpace(l)
		if strings.HasPrefix(l, "Write at") || strings.HasPrefix(l, "Read at") || strings.HasPrefix(l, "Previous") || strings.Contains(l, ".gen.go:") {
			keep = append(keep, c06HexRe.ReplaceAllString(l, "0x?"))
		}
		if len(keep) >= 8 {
			break
		}
	}
	return strings.Join(keep, " | ")
}

func c18Replay(raw json.RawMessage) *mc.Violation {
	// the scenario programs are small and deterministic: re-run the quick tier
	ctx := &mc.Ctx{NShards: 1, Tier: "quick"}
	var probe struct {
		Pass string `json:"pass"`
		Kind string `json:"kind"`
	}
	json.Unmarshal(raw, &probe)
	if os.Getenv("C18_REPLAY_THOROUGH") != "" {
		ctx.Tier = "thorough"
	}
	c18Worker(ctx)
	for _, v := range ctx.Stats.Violations {
		if probe.Pass == "race" && (v.Kind == "data-race" || v.Kind == "free-running-mismatch") {
			v.Detail = v.Kind // race reports name goroutine ids; compare by kind
			return &v
		}
		if probe.Pass == "" && strings.HasPrefix(v.Kind, "schedule:") {
			return &v
		}
	}
	return nil
}

func init() {
	mc.Register(&mc.Check{
		ID:    "C18",
		Level: "model_checking",
		Rule: "two grammars (A: statements with @list, precedence, a lexer mode, @error recovery and _onBounds; B: a different grammar) are generated from the current tree, the UNMODIFIED generated files get a scheduling point at every loop iteration and function entry, and are compiled with a cooperative scheduler; scenarios: 2 threads same grammar (one with syntax and lexical errors), 2 threads of different grammars, lexer-only + parser thread, 3 threads; " +
			"explored: every schedule with at most b preemptions (iterative context bounding, executions run to completion), thorough: also a stateful search keyed on (thread positions, hash of all package-level variables) covering the unbounded interleavings of the 2-thread scenarios; oracle: every thread's observable trace (tokens, reductions with arguments, errors with expected sets, bounds calls, verdict) equals its trace when run alone, and the hash of all package-level variables never changes; " +
			"separately, the same bodies run free on 8 goroutines x 200 iterations under -race on the unmodified generated code; states = scheduling points + stateful states, transitions = scheduler steps",
		Assume: []string{"scheduling points at loop iterations and function entries of the generated files are sufficient because unsynchronised accesses are caught by the separate free-running -race pass", "the small lexer driver in the user package follows the reference driver's protocol"},
		Worker: c18Worker,
		Replay: c18Replay,
		Serial: true,
	})
}
