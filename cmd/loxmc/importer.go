package main

import (
	"go/importer"
	gotoken "go/token"
	gotypes "go/types"
	"sync"
)

// A process-wide source importer for the standard-library imports of stage-3
// user packages. It is not safe for concurrent use, hence the lock.
type lockedImporter struct {
	mu  sync.Mutex
	imp gotypes.Importer
}

func (l *lockedImporter) Import(path string) (*gotypes.Package, error) {
	l.mu.Lock()
	defer l.mu.Unlock()
	return l.imp.Import(path)
}

var (
	impOnce sync.Once
	impInst *lockedImporter
)

func importerFor() gotypes.Importer {
	impOnce.Do(func() {
		impInst = &lockedImporter{imp: importer.ForCompiler(gotoken.NewFileSet(), "source", nil)}
	})
	return impInst
}
