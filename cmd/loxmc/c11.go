package main

import (
	"encoding/json"
	"fmt"
	"unicode/utf8"

	"github.com/dcaiafa/lox/verif/internal/lexref"
	"github.com/dcaiafa/lox/verif/internal/lx"
	"github.com/dcaiafa/lox/verif/internal/mc"
	"github.com/dcaiafa/lox/verif/internal/pipe"
	"github.com/dcaiafa/lox/verif/internal/px"
)

var c11Symbols = [][]byte{[]byte("a"), []byte("b"), []byte("c"), []byte("z"), []byte("\n"), []byte("é"), {0xFF}}

func c11One(ws *pipe.Workspace, fam string, idx int64, s *lexref.Spec, depth, L int, st *mc.Stats, only []byte) []mc.Violation {
	var out []mc.Violation
	if hasEmptyClass(s) {
		st.Add("skipped_empty_class", 1)
		return nil
	}
	b := lx.Build(ws, s, "")
	switch b.Status {
	case lx.Rejected:
		st.Add("specs_rejected", 1)
		st.Note("rejected: " + firstLine(b.Res.Diag) + " e.g. {" + s.OneLine() + "}")
		return nil
	case lx.Panicked:
		return []mc.Violation{{Property: "C12", Check: "C11", Kind: "generator-panic", Size: len(s.OneLine()),
			Case: lexCaseJSON(fam, idx, s, nil, nil, L), Detail: "generator panicked on {" + s.OneLine() + "}: " + firstLine(b.Res.Panic)}}
	case lx.Broken:
		st.HarnessError("spec {%s}: %s", s.OneLine(), b.Problem)
		return nil
	}
	st.Evaluations++
	st.Validated++
	if b.ModeCountProblem != "" {
		out = append(out, mc.Violation{Property: "C10", Check: "C11", Kind: "mode-tables-missing", Size: len(s.OneLine()),
			Case: lexCaseJSON(fam, idx, s, nil, nil, L), Detail: "spec {" + s.OneLine() + "}: " + b.ModeCountProblem})
	}
	if only == nil {
		gr := lx.ImplGraph(b, px.NB, depth)
		st.States += int64(gr.States)
		st.Transitions += int64(gr.Transitions)
		st.Add("branches_closed_at_stack_depth_bound", int64(gr.DepthCapped))
		for _, mm := range gr.Mismatches {
			out = append(out, mc.Violation{Property: "C11", Check: "C11", Kind: "graph-" + mm.Kind, Size: len(s.OneLine())*100 + len(mm.Path),
				Case:   lexCaseJSON(fam, idx, s, mm.Path, nil, L),
				Detail: fmt.Sprintf("spec {%s} after pushing %s: %s", s.OneLine(), mm.PathText(), mm.Detail)})
		}
		if len(out) > 0 {
			return out
		}
		if gr.States > 2 {
			st.Nontrivial++
		}
	}
	b.Install(px.NB)
	acct := c11Accounting(b)
	nbad := 0
	check := func(in []byte) {
		if nbad > 0 {
			return
		}
		st.Add("driver_inputs", 1)
		sr := lx.ImplStream(px.NB, b, in)
		problem, kind := "", ""
		switch {
		case sr.Panic != "":
			problem, kind = "panic: "+sr.Panic, "driver-panic"
		case sr.Stuck != "":
			problem, kind = "lexing never reaches EOF: "+sr.Stuck, "driver-livelock"
		case !sr.Finished:
			problem, kind = "no EOF", "driver-no-eof"
		default:
			if t := sr.Tiling(len(in)); t != "" {
				problem, kind = "input not accounted for exactly once: "+t+fmt.Sprintf(" (items %v)", sr.Items), "driver-conservation"
			} else if acct != nil {
				if t := acct(in, sr); t != "" {
					problem, kind = t+fmt.Sprintf(" (items %v)", sr.Items), "driver-wrong-account"
				}
			}
		}
		if problem != "" {
			nbad++
			cp := append([]byte(nil), in...)
			out = append(out, mc.Violation{Property: "C11", Check: "C11", Kind: kind, Size: len(s.OneLine())*100 + len(in),
				Case:   lexCaseJSON(fam, idx, s, nil, cp, L),
				Detail: fmt.Sprintf("spec {%s} input %q: %s", s.OneLine(), in, problem)})
		}
	}
	if only != nil {
		check(only)
		return out
	}
	forByteStrings(c11Symbols, L, check)
	if len(out) == 0 && (!pairsShort || idx%16 == 0) {
		// what a state machine has consumed, started or kept pending is its own:
		// two state machines of the package used in turns do what each does alone
		var alpha []int
		for _, r := range lx.Alphabet(b.C, nil) {
			if r >= 0 && len(alpha) < 4 {
				alpha = append(alpha, r)
			}
		}
		var inputs [][]int
		forStrings(alpha, 2, func(w []int) { inputs = append(inputs, append([]int(nil), w...)) })
		pr2 := lx.Pairs(b, px.NB, inputs)
		st.Add("instance_pairs", int64(pr2.Pairs))
		st.Transitions += int64(pr2.Calls)
		if pr2.Problem != "" {
			out = append(out, mc.Violation{Property: "C11", Check: "C11", Kind: "instances-interfere", Size: len(s.OneLine())*100 + len(pr2.U) + len(pr2.V),
				Case:   lexCaseJSON(fam, idx, s, nil, nil, L),
				Detail: fmt.Sprintf("spec {%s}: %s", s.OneLine(), pr2.Problem)})
		}
	}
	return out
}

// c11Accounting returns, for single-mode specifications without mode actions,
// a check that every stretch is accounted for by a rule that matches it: text
// dropped as a discard is (accumulated matches)* followed by a match of a
// @discard rule, the text of a token of type T is (accumulated matches)*
// followed by a match of a rule that produces T. (Tiling alone would accept a
// lexer that drops text no @discard rule matches.)
func c11Accounting(b *lx.Built) func(in []byte, sr *lx.Stream) string {
	s := b.C.Spec
	if len(s.Modes) != 1 {
		return nil
	}
	m := b.C.Modes[0]
	var pre, disc []int
	byTok := map[int][]int{}
	for i, r := range m.Rules {
		switch {
		case r.K == lexref.RToken:
			if len(r.Actions) > 0 {
				return nil
			}
			byTok[b.C.TokIndex[r.Name]] = append(byTok[b.C.TokIndex[r.Name]], i)
		case len(r.Actions) == 0:
			pre = append(pre, i)
		case len(r.Actions) == 1 && r.Actions[0].K == lexref.ADiscard:
			disc = append(disc, i)
		case len(r.Actions) == 1 && r.Actions[0].K == lexref.AEmit:
			t := b.C.TokIndex[r.Actions[0].Arg]
			byTok[t] = append(byTok[t], i)
		default:
			return nil
		}
	}
	decode := func(bs []byte) []int {
		var cps []int
		for len(bs) > 0 {
			r, w := utf8.DecodeRune(bs)
			cps = append(cps, int(r))
			bs = bs[w:]
		}
		return cps
	}
	return func(in []byte, sr *lx.Stream) string {
		for _, it := range sr.Items {
			switch it.Kind {
			case "discard":
				if !b.C.MatchSeq(m, pre, disc, decode(in[it.Start:it.End])) {
					return fmt.Sprintf("the text %q was dropped, but no @discard rule matches it (after accumulated text or not): silently swallowed", in[it.Start:it.End])
				}
			case "tok":
				if !b.C.MatchSeq(m, pre, byTok[it.Type], decode(in[it.Start:it.End])) {
					return fmt.Sprintf("a token of type %d carries the text %q, which no rule producing that type matches", it.Type, in[it.Start:it.End])
				}
			}
		}
		return ""
	}
}

func c11Worker(c *mc.Ctx) {
	ws := pipe.NewWorkspace("c11")
	defer ws.Close()
	depth, L := 4, 5
	pairsShort = c.Quick()
	if c.Quick() {
		depth, L = 3, 4
	}
	leaves := lexref.StdLeaves()
	cards := []int{lexref.COpt, lexref.CStar, lexref.CPlus}
	p1, p2, p3 := lexref.NewPool(leaves, cards, 1), lexref.NewPool(leaves, cards, 2), lexref.NewPool(leaves, cards, 3)
	type fam struct {
		name  string
		size  int64
		get   func(i int64) *lexref.Spec
		limit int64
	}
	var fams []fam
	addRS := func(name string, rs *lexref.RuleSets, limit int64) {
		fams = append(fams, fam{name, rs.Size(), rs.Get, limit})
	}
	// Kinds: 3 = token / @discard fragment / accumulating fragment
	if c.Quick() {
		addRS("r1-s3", &lexref.RuleSets{Pools: []*lexref.Pool{p3}, Kinds: 3}, 0)
		addRS("r2-s2", &lexref.RuleSets{Pools: []*lexref.Pool{p2, p2}, Kinds: 3}, 0)
	} else {
		addRS("r1-s4", &lexref.RuleSets{Pools: []*lexref.Pool{lexref.NewPool(leaves, cards, 4)}, Kinds: 3}, 0)
		addRS("r2-s2", &lexref.RuleSets{Pools: []*lexref.Pool{p2, p2}, Kinds: 3}, 0)
		addRS("r2-s3s2", &lexref.RuleSets{Pools: []*lexref.Pool{p3, p2}, Kinds: 3}, 40000)
		addRS("r3-s1", &lexref.RuleSets{Pools: []*lexref.Pool{p1, p1, p1}, Kinds: 3}, 30000)
	}
	// mode graphs: the quick spaces in both tiers (the thorough tier goes deeper in stack depth and input length)
	for _, f := range c07Spaces(true) {
		f := f
		fams = append(fams, fam{"modes-" + f.name, f.sp.Size(), f.sp.Get, f.limit})
	}
	ng := c08Specs(true)
	fams = append(fams, fam{"nongreedy", int64(len(ng)), func(i int64) *lexref.Spec { return ng[i].spec }, 0})
	// repetitions of sequences of nullable terms (cycles of epsilon edges), rules that match the empty string included
	nl := nullableLoopSpecs(c.Quick())
	fams = append(fams, fam{"nullable-loops", int64(len(nl)), func(i int64) *lexref.Spec { return nl[i] }, 0})
	cl := c11ClassSpecs()
	fams = append(fams, fam{"classes-in-fragments", int64(len(cl)), func(i int64) *lexref.Spec { return cl[i] }, 0})
	for _, f := range fams {
		n := f.size
		if f.limit > 0 && f.limit < n {
			c.Stats.Cap(fmt.Sprintf("%s: first %d of %d specifications", f.name, f.limit, n))
			n = f.limit
		}
		for i := int64(0); i < n; i++ {
			if !c.Mine(i) {
				continue
			}
			s := f.get(i)
			if len(c.Stats.Samples) < 3 && i%577 == 11 {
				c.Stats.Sample(map[string]any{"family": f.name, "spec": s.OneLine(), "driver_strings_up_to_symbols": L})
			}
			for _, v := range c11One(ws, f.name, i, s, depth, L, &c.Stats, nil) {
				c.Stats.Violate(v)
			}
		}
	}
}

func c11Replay(raw json.RawMessage) *mc.Violation {
	var lc lexCase
	if err := json.Unmarshal(raw, &lc); err != nil {
		return &mc.Violation{Property: "C11", Kind: "bad-replay", Detail: err.Error()}
	}
	ws := pipe.NewWorkspace("c11r")
	defer ws.Close()
	pairsShort = false // the two-instance pass on whatever specification is replayed
	var st mc.Stats
	var only []byte
	if lc.Path == nil && lc.Input != nil {
		only = lc.Input
	}
	vs := c11One(ws, lc.Family, lc.Index, lc.Spec, 3, lc.L, &st, only)
	if len(vs) == 0 {
		return nil
	}
	return &vs[0]
}

func init() {
	mc.Register(&mc.Check{
		ID:    "C11",
		Level: "model_checking",
		Rule: "specifications: C02's rule sets WITHOUT the non-nullable precondition and with accumulating fragments as a third rule kind, C07's mode graphs, C08's non-greedy shapes; " +
			"each: breadth-first search of every configuration (state, mode, mode stack <= D) of the real state machine reachable by any rune sequence, with an exact livelock search (repeated configuration, or stack pumping, on one pending rune) - all input lengths; " +
			"then every byte string up to L symbols (incl. newline, multi-byte, invalid UTF-8) lexed to EOF by the real driver with a recorder around the real state machine: token, discard and error stretches must tile the input exactly once in order, and (single-mode specifications) every dropped stretch must be matched by a @discard rule and every token's text by a rule producing that token, after any accumulated matches; non-trivial = spec with > 2 reachable configurations",
		Assume: []string{"error stretches are reconstructed from the reference driver's documented behaviour (skip to the character after the next newline)", "no reference semantics is needed: the oracles are termination and tiling"},
		Worker: c11Worker,
		Replay: c11Replay,
	})
}

// c11ClassSpecs: a class expression under + in a fragment that drops or keeps
// what it matches, before a token rule over a..z. The classes are every ordered
// pair of items from {a, b, a-b, b-c, a-c, a-z} (the letters the driver's
// alphabet has: a, b, c, z; items nested in, overlapping,
// adjacent to one another), plain, negated and as the right-hand side of a
// difference: a class that comes out LARGER than its meaning makes the fragment
// swallow text that no discarding rule of the specification matches.
func c11ClassSpecs() []*lexref.Spec {
	items := []lexref.ClassItem{lexref.Ch('a'), lexref.Ch('b'), lexref.Range('a', 'b'), lexref.Range('b', 'c'), lexref.Range('a', 'c'), lexref.Range('a', 'z')}
	ae := func() *lexref.Class { return &lexref.Class{Items: []lexref.ClassItem{lexref.Range('a', 'z')}} }
	var out []*lexref.Spec
	for _, x := range items {
		for _, y := range items {
			pair := []lexref.ClassItem{x, y}
			for form := 0; form < 3; form++ {
				var cl *lexref.Class
				switch form {
				case 0:
					cl = &lexref.Class{Items: pair}
				case 1:
					cl = &lexref.Class{Neg: true, Items: pair}
				case 2:
					cl = ae()
					cl.Sub = &lexref.Class{Items: pair}
				}
				for kind := 0; kind < 2; kind++ {
					s := &lexref.Spec{Modes: []lexref.Mode{{}}}
					fr := lexref.Rule{K: lexref.RFrag, Rx: lexref.Rep(lexref.Cls(cl), lexref.CPlus)}
					if kind == 0 {
						fr.Actions = []lexref.Action{{K: lexref.ADiscard}}
					}
					s.Modes[0].Rules = append(s.Modes[0].Rules, fr,
						lexref.Rule{K: lexref.RToken, Name: "T1", Rx: lexref.Cls(ae())})
					out = append(out, s)
				}
			}
		}
	}
	return out
}
