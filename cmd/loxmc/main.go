// loxmc is the model checker for the properties of dcaiafa/lox.
//
//	loxmc <id> [quick|thorough]     run a check (parent: spawns workers)
//	loxmc worker <id> <tier> <i> <n> <out>
//	loxmc replay <file>
//	loxmc setup
package main

import (
	"fmt"
	"os"
	"strconv"

	"github.com/dcaiafa/lox/verif/internal/mc"
	"github.com/dcaiafa/lox/verif/internal/pipe"
)

func main() {
	if len(os.Args) < 2 {
		fmt.Fprintln(os.Stderr, "usage: loxmc <id> [quick|thorough] | replay <file> | setup")
		os.Exit(2)
	}
	switch os.Args[1] {
	case "setup":
		fmt.Println("loxmc: built")
		os.Exit(0)
	case "worker":
		i, _ := strconv.Atoi(os.Args[4])
		n, _ := strconv.Atoi(os.Args[5])
		os.Exit(mc.RunWorker(os.Args[2], os.Args[3], i, n, os.Args[6]))
	case "replay":
		os.Exit(mc.RunReplay(os.Args[2]))
	case "genreal":
		// one real codegen.Generate in a fresh process (reference for C13's in-process histories)
		ok, diag, pmsg := pipe.RunReal(os.Args[2])
		if !ok || pmsg != "" {
			fmt.Fprintln(os.Stderr, diag, pmsg)
			os.Exit(1)
		}
		os.Exit(0)
	case "selfcheck":
		os.Exit(selfCheck())
	default:
		tier := "quick"
		if len(os.Args) > 2 {
			tier = os.Args[2]
		}
		if t := os.Getenv("VERIF_TIER"); t != "" && len(os.Args) <= 2 {
			tier = t
		}
		os.Exit(mc.RunParent(os.Args[1], tier))
	}
}
