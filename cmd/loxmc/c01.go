package main

import (
	"encoding/json"
	"fmt"
	"strings"

	"github.com/dcaiafa/lox/verif/internal/cfgref"
	"github.com/dcaiafa/lox/verif/internal/ctypes"
	"github.com/dcaiafa/lox/verif/internal/gen"
	"github.com/dcaiafa/lox/verif/internal/mc"
	"github.com/dcaiafa/lox/verif/internal/pipe"
	"github.com/dcaiafa/lox/verif/internal/px"
)

// ---------------------------------------------------------------------------
// Shared: families of grammars.

// family is a deterministic stream of grammars: a plain space, optionally
// followed by one-sugar variants of each member.
type family struct {
	Name   string
	Space  *gen.Space
	Sugar  bool  // emit one-sugar variants of each canonical member instead of the member itself
	Sugar2 bool  // emit the two-sugar variants (gen.SugarPairs) instead
	Limit  int64 // stop after this many raw indices (0 = whole space); reported as a cap
	Names  int   // gen.Grammar.RenameRules scheme
	Pad    int   // gen.Grammar.PadToks: unused tokens declared before the grammar's own
	// Indirect: emit gen.Grammar.IndirectEmpty of each member (members without @empty are skipped)
	Indirect bool
	// Wide: instead of Space, N grammars built from K components each (gen.Wide)
	Wide *wideFam
	// per-family bounds (0 = the check's)
	L, Lpos, Npos int
}

// wideFam enumerates K-sequences of components from a pool: the accepted
// members found by walking G(2,2,2,2) with a fixed stride. Sequence number i
// is the base-len(pool) numeral of i*stride mod len(pool)^K (a fixed
// permutation of the counter, so that early members already differ in every
// position).
type wideFam struct {
	K    int
	N    int64
	pool []*gen.Grammar
}

const widePoolSize = 40

func (w *wideFam) fill(ws *pipe.Workspace) {
	if w.pool != nil {
		return
	}
	sp := gen.NewSpace(2, 2, 2, 2, false)
	for i := int64(0); i < sp.Size() && len(w.pool) < widePoolSize; i += 131 {
		g := sp.Get(i)
		if g == nil {
			continue
		}
		if b := px.Build(ws, g, px.NB); b.Status == px.Accepted && cfgref.FromGrammar(g).Reduced() {
			w.pool = append(w.pool, g)
		}
	}
}

func (w *wideFam) get(i int64) *gen.Grammar {
	n := int64(len(w.pool))
	total := int64(1)
	for k := 0; k < w.K; k++ {
		total *= n
	}
	x := (i * 2654435761) % total
	var comps []*gen.Grammar
	for k := 0; k < w.K; k++ {
		comps = append(comps, w.pool[x%n])
		x /= n
	}
	return gen.Wide(comps)
}

// each calls f(caseIndex, grammar) for every grammar of the family that falls
// in the worker's shard. caseIndex is unique inside the family.
func (fam *family) each(c *mc.Ctx, f func(idx int64, g *gen.Grammar)) {
	if fam.Wide != nil {
		ws := pipe.NewWorkspace("wide")
		fam.Wide.fill(ws)
		ws.Close()
		if len(fam.Wide.pool) < 2 {
			c.Stats.HarnessError("%s: component pool has %d members", fam.Name, len(fam.Wide.pool))
			return
		}
		c.Stats.Cap(fmt.Sprintf("%s: %d of the %d^%d sequences of %d components (pool: accepted members of G(2,2,2,2) at stride 131), in a fixed permuted counter order", fam.Name, fam.Wide.N, len(fam.Wide.pool), fam.Wide.K, fam.Wide.K))
		for i := int64(0); i < fam.Wide.N; i++ {
			if !c.Mine(i) {
				continue
			}
			g := fam.Wide.get(i)
			g.RenameRules(fam.Names)
			f(i, g)
		}
		return
	}
	n := fam.Space.Size()
	if fam.Limit > 0 && fam.Limit < n {
		n = fam.Limit
		c.Stats.Cap(fmt.Sprintf("%s %s: first %d of %d raw grammars in canonical order", fam.Name, fam.Space, n, fam.Space.Size()))
	}
	for i := int64(0); i < n; i++ {
		if !c.Mine(i) {
			continue
		}
		if c.OverBudget() {
			c.Stats.Cap(fmt.Sprintf("%s: soft time budget reached at raw index %d of %d", fam.Name, i, n))
			return
		}
		g := fam.Space.Get(i)
		if g == nil {
			continue
		}
		if fam.Indirect {
			if g = g.IndirectEmpty(); g == nil {
				continue
			}
		}
		g.RenameRules(fam.Names)
		g.PadToks = fam.Pad
		if fam.Sugar2 {
			for k, v := range gen.SugarPairs(g) {
				f(i*1000+int64(k)+1, v)
			}
			continue
		}
		if !fam.Sugar {
			f(i*1000, g)
			continue
		}
		for k, v := range gen.SugarVariants(g) {
			f(i*1000+int64(k)+1, v)
		}
	}
}

type grammarCase struct {
	Family  string       `json:"family"`
	Index   int64        `json:"index"`
	Grammar *gen.Grammar `json:"grammar"`
	Text    string       `json:"lox"`
	L       int          `json:"max_len"`
	Input   []string     `json:"input,omitempty"`
}

func mkCase(fam string, idx int64, g *gen.Grammar, L int, input []int) json.RawMessage {
	gc := grammarCase{Family: fam, Index: idx, Grammar: g, Text: g.LoxText(), L: L}
	for _, t := range input {
		gc.Input = append(gc.Input, tokName(g, t))
	}
	b, _ := json.Marshal(gc)
	return b
}

// tokName renders a lox terminal index.
func tokName(g *gen.Grammar, t int) string {
	switch {
	case t == 0:
		return "EOF"
	case t == 1:
		return "ERROR"
	case t-2-g.PadToks >= 0 && t-2-g.PadToks < len(g.Toks):
		return g.Toks[t-2-g.PadToks]
	}
	return fmt.Sprint(t)
}

func inputText(g *gen.Grammar, w []int) string {
	var s []string
	for _, t := range w {
		s = append(s, tokName(g, t))
	}
	return "[" + strings.Join(s, " ") + "]"
}

// refString converts lox terminal indices to a cfgref string.
func refString(w []int) string {
	b := make([]byte, len(w))
	for i, t := range w {
		b[i] = byte(px.RefSym(t))
	}
	return string(b)
}

// forStrings enumerates all strings over alphabet (lox terminal indices) up to
// length L, shortest first within DFS order.
func forStrings(alphabet []int, L int, f func(w []int)) {
	w := make([]int, 0, L)
	var rec func()
	rec = func() {
		f(w)
		if len(w) == L {
			return
		}
		for _, a := range alphabet {
			w = append(w, a)
			rec()
			w = w[:len(w)-1]
		}
	}
	rec()
}

func ranErrorProd(b *px.Built, evs []ctypes.Ev) bool {
	for _, e := range evs {
		if e.Kind == ctypes.EvReduce && b.ProdHasErr[e.Prod] {
			return true
		}
	}
	return false
}

// ---------------------------------------------------------------------------
// C01.

type c01Params struct {
	fams []family
	L    int
	Lpos int // positive side: sentences up to this length (from cfgref)
	Npos int // at most this many long sentences per grammar
}

func c01Families(quick bool) c01Params {
	if quick {
		return c01Params{
			fams: []family{
				{Name: "plain", Space: gen.NewSpace(2, 2, 2, 2, false)},
				{Name: "plain3", Space: gen.NewSpace(3, 2, 2, 2, false), Limit: 400000},
				{Name: "sugar", Space: gen.NewSpace(2, 2, 2, 2, false), Sugar: true, Limit: 6000},
				{Name: "sugar2", Space: gen.NewSpace(2, 2, 2, 2, false), Sugar2: true, Limit: 2500, L: 5, Lpos: 7, Npos: 60},
				{Name: "plain-names", Space: gen.NewSpace(2, 2, 2, 2, false), Names: 1},
				{Name: "plain3-names", Space: gen.NewSpace(3, 2, 2, 2, false), Limit: 150000, Names: 1},
				{Name: "plain-names-builtin", Space: gen.NewSpace(2, 2, 2, 2, false), Names: 3},
				{Name: "plain-indirect", Space: gen.NewSpace(2, 2, 2, 2, false), Indirect: true},
				{Name: "plain3-indirect", Space: gen.NewSpace(3, 2, 2, 2, false), Limit: 400000, Indirect: true},
				{Name: "plain-l3-indirect", Space: gen.NewSpace(2, 2, 2, 3, false), Limit: 300000, Indirect: true},
				{Name: "wide", Wide: &wideFam{K: 5, N: 1200}, L: 3, Lpos: 8, Npos: 150},
				{Name: "wide-names", Wide: &wideFam{K: 5, N: 400}, L: 3, Lpos: 8, Npos: 150, Names: 1},
			},
			L: 6, Lpos: 9, Npos: 200,
		}
	}
	return c01Params{
		fams: []family{
			{Name: "plain", Space: gen.NewSpace(2, 2, 2, 2, false)},
			{Name: "plain-l3", Space: gen.NewSpace(2, 2, 2, 3, false), Limit: 2000000},
			{Name: "plain3", Space: gen.NewSpace(3, 2, 2, 2, false), Limit: 3000000},
			{Name: "plain-t3", Space: gen.NewSpace(2, 3, 2, 2, false)},
			{Name: "sugar", Space: gen.NewSpace(2, 2, 2, 2, false), Sugar: true},
			{Name: "sugar2", Space: gen.NewSpace(2, 2, 2, 2, false), Sugar2: true, Limit: 20000, L: 6, Lpos: 9, Npos: 200},
			{Name: "sugar2-t3", Space: gen.NewSpace(2, 3, 2, 2, false), Sugar2: true, Limit: 20000, L: 5, Lpos: 8, Npos: 100},
			{Name: "plain-names", Space: gen.NewSpace(2, 2, 2, 2, false), Names: 1},
			{Name: "plain-t3-names", Space: gen.NewSpace(2, 3, 2, 2, false), Names: 1},
			{Name: "plain-names-builtin", Space: gen.NewSpace(2, 2, 2, 2, false), Names: 3},
			{Name: "plain3-names-builtin", Space: gen.NewSpace(3, 2, 2, 2, false), Limit: 500000, Names: 3},
			{Name: "plain-indirect", Space: gen.NewSpace(2, 2, 2, 2, false), Indirect: true},
			{Name: "plain3-indirect", Space: gen.NewSpace(3, 2, 2, 2, false), Limit: 3000000, Indirect: true},
			{Name: "plain-l3-indirect", Space: gen.NewSpace(2, 2, 2, 3, false), Limit: 2000000, Indirect: true},
			{Name: "wide", Wide: &wideFam{K: 5, N: 20000}, L: 4, Lpos: 9, Npos: 400},
			{Name: "wide7", Wide: &wideFam{K: 7, N: 10000}, L: 3, Lpos: 9, Npos: 400},
			{Name: "wide-names", Wide: &wideFam{K: 5, N: 10000}, L: 3, Lpos: 9, Npos: 400, Names: 1},
		},
		L: 7, Lpos: 11, Npos: 1000,
	}
}

// c01Explore checks one accepted grammar; it returns the violations found
// (at most a few) and updates the counters.
func c01Explore(b *px.Built, r *px.Runner, famName string, idx int64, L, Lpos, Npos int, st *mc.Stats) []mc.Violation {
	g := b.G
	cfg := cfgref.FromGrammar(g)
	b.Install(r.C)
	r.NStates = len(b.Actions) // upper bound on the number of states
	r.ResetCounts()
	sent := cfg.Sent(maxInt(L, Lpos))[cfg.Start]
	var alphabet []int
	for i := range g.Toks {
		alphabet = append(alphabet, px.LoxTok(i))
	}
	var out []mc.Violation
	report := func(kind string, w []int, detail string) {
		if len(out) >= 3 {
			return
		}
		out = append(out, mc.Violation{
			Property: "C01", Check: "C01", Kind: kind, Size: len(g.String())*100 + len(w),
			Case:   mkCase(famName, idx, g, L, w),
			Detail: fmt.Sprintf("grammar {%s} input %s: %s", g.String(), inputText(g, w), detail),
		})
	}
	nSent := 0
	var treeOut []mc.Violation
	// the sentence the nested parser reads: the longest one within the bound (first in lexicographic order)
	var innerSent []int
	for _, s := range cfgref.SortedStrings(sent) {
		if len(s) <= L && len(s) >= len(innerSent) && (innerSent == nil || len(s) > len(innerSent)) {
			innerSent = make([]int, len(s))
			for i := range s {
				innerSent[i] = int(s[i]) - cfgref.TokOff + 2
			}
		}
	}
	if len(innerSent) == 0 {
		innerSent = nil
	} else if o := r.Run(innerSent); !o.OK || ranErrorProd(b, o.Events) || derivationProblem(b, o.Events, innerSent) != "" {
		innerSent = nil // it does not parse alone: reported below, not as interference
	}
	check := func(w []int) {
		o := r.Run(w)
		st.Evaluations++
		_, member := sent[refString(w)]
		if member {
			nSent++
		}
		switch {
		case o.Panic != "":
			report("parser-panic", w, "generated parser panicked: "+o.Panic)
		case o.Hang != "":
			report("parser-hang-"+o.HangKind, w, "generated parser does not terminate: "+o.Hang)
		case o.Incon:
			st.Inconcl++
		default:
			clean := o.OK && !ranErrorProd(b, o.Events)
			if clean && !member {
				report("accepts-nonsentence", w, "parse() succeeded cleanly but the input is not a sentence")
			}
			if !clean && member {
				report("rejects-sentence", w, fmt.Sprintf("input is a sentence but parse() returned %v (error production ran: %v)", o.OK, ranErrorProd(b, o.Events)))
			}
			if clean && member {
				if why := derivationProblem(b, o.Events, w); why != "" && len(treeOut) < 2 {
					treeOut = append(treeOut, mc.Violation{
						Property: "C03", Check: "C01", Kind: "carrier-derivation", Size: len(g.String())*100 + len(w),
						Case:   mkCase(famName, idx, g, L, w),
						Detail: fmt.Sprintf("grammar {%s} input %s: the reductions of the successful parse do not form a derivation tree of the input in the emitted grammar: %s", g.String(), inputText(g, w), why),
					})
				}
				st.Add("derivations_checked", 1)
				// Parser values are independent: the same parse again, with the action of
				// its k-th reduction parsing another sentence with a parser of its own
				// (what an include-style action does), for every k.
				if len(treeOut) == 0 && innerSent != nil {
					nred := 0
					for _, e := range o.Events {
						if e.Kind == ctypes.EvReduce {
							nred++
						}
					}
					for k := 0; k < nred && k < 12 && len(treeOut) == 0; k++ {
						on, ran, innerOK, innerEvs := r.RunNested(w, k, innerSent)
						st.Add("nested_parses", 1)
						why := ""
						switch {
						case on.Panic != "":
							why = "the parse panicked: " + firstLine(on.Panic)
						case on.Hang != "" || on.Incon:
							why = "the outer parse does not terminate: " + on.Hang
						case !ran:
							why = fmt.Sprintf("the outer parse made fewer than %d reductions this time", k+1)
						case !on.OK:
							why = "the outer parse failed"
						case !innerOK:
							why = "the inner parse of a sentence failed"
						default:
							if why = derivationProblem(b, on.Events, w); why != "" {
								why = "outer parse: " + why
							} else if why = derivationProblem(b, innerEvs, innerSent); why != "" {
								why = "inner parse: " + why
							}
						}
						if why != "" {
							treeOut = append(treeOut, mc.Violation{
								Property: "C03", Check: "C01", Kind: "nested-parser-interferes", Size: len(g.String())*100 + len(w),
								Case:   mkCase(famName, idx, g, L, w),
								Detail: fmt.Sprintf("grammar {%s} input %s, with the action of reduction #%d parsing %s with a second parser value: %s (alone, the parse succeeds with a correct derivation)", g.String(), inputText(g, w), k, inputText(g, innerSent), why),
							})
						}
					}
				}
			}
		}
	}
	forStrings(alphabet, L, check)
	// Positive side, deeper: sentences longer than L up to Lpos.
	if Lpos > L {
		long := 0
		for _, w := range cfgref.SortedStrings(sent) {
			if len(w) <= L {
				continue
			}
			if long >= Npos {
				st.Cap(fmt.Sprintf("positive side: at most %d sentences of length %d..%d per grammar, in (length, lexicographic) order", Npos, L+1, Lpos))
				break
			}
			long++
			toks := make([]int, len(w))
			for i := range w {
				toks[i] = int(w[i]) - cfgref.TokOff + 2
			}
			check(toks)
		}
	}
	st.States += int64(len(r.Configs))
	st.Transitions += r.Steps
	if nSent >= 2 {
		st.Nontrivial++
	}
	return append(out, treeOut...)
}

// derivationProblem checks the reductions of one successful, error-free parse
// against the grammar object the tables were emitted from: every reduction of
// production p pops exactly p's terms, in production order (a token of the
// term's type, or a node of the term's rule), the reductions form one tree
// rooted in the start rule, and its leaves are the input tokens, each once and
// in order. (What a reduction *receives* is C03's statement; on the carrier the
// generic action records the popped slots.) "" = no problem.
func derivationProblem(b *px.Built, evs []ctypes.Ev, w []int) string {
	isKid := map[*ctypes.Node]bool{}
	var nodes []*ctypes.Node
	for _, e := range evs {
		if e.Kind != ctypes.EvReduce {
			continue
		}
		if e.N == nil {
			return "a reduction without a node"
		}
		nodes = append(nodes, e.N)
		if int(e.N.Prod) < 0 || int(e.N.Prod) >= len(b.ProdTerms) {
			return fmt.Sprintf("reduction by production %d, which the grammar does not have", e.N.Prod)
		}
		terms := b.ProdTerms[e.N.Prod]
		if len(e.N.Kids) != len(terms) {
			return fmt.Sprintf("reduction of {%s = %v} took %d stack slots", b.ProdRule[e.N.Prod], terms, len(e.N.Kids))
		}
		for i, k := range e.N.Kids {
			switch v := k.(type) {
			case ctypes.Token:
				if v.Type < 0 || v.Type >= len(b.TermNames) || b.TermNames[v.Type] != terms[i] {
					return fmt.Sprintf("reduction of {%s = %v}: slot %d holds a token of type %d", b.ProdRule[e.N.Prod], terms, i, v.Type)
				}
			case *ctypes.Node:
				if v == nil || isKid[v] {
					return fmt.Sprintf("reduction of {%s = %v}: slot %d holds a result that was already consumed", b.ProdRule[e.N.Prod], terms, i)
				}
				isKid[v] = true
				if b.ProdRule[v.Prod] != terms[i] {
					return fmt.Sprintf("reduction of {%s = %v}: slot %d holds a result of rule %s", b.ProdRule[e.N.Prod], terms, i, b.ProdRule[v.Prod])
				}
			default:
				return fmt.Sprintf("reduction of {%s = %v}: slot %d holds %T", b.ProdRule[e.N.Prod], terms, i, k)
			}
		}
	}
	var root *ctypes.Node
	for _, n := range nodes {
		if !isKid[n] {
			if root != nil {
				return "the reductions form more than one tree"
			}
			root = n
		}
	}
	if root == nil {
		return "no reduction"
	}
	if rn := b.ProdRule[root.Prod]; rn != b.G.Rules[0].Name && rn != "S'" {
		return "the root of the tree is a reduction of rule " + rn
	}
	// every reduction happens after its children (bottom-up) and the leaves are the input
	order := map[*ctypes.Node]int{}
	for i, n := range nodes {
		order[n] = i
	}
	pos := 0
	var walk func(n *ctypes.Node) string
	walk = func(n *ctypes.Node) string {
		last := -1
		for _, k := range n.Kids {
			switch v := k.(type) {
			case ctypes.Token:
				if pos >= len(w) || v.Idx != pos || v.Type != w[pos] {
					return fmt.Sprintf("leaf #%d of the tree is token #%d of type %d", pos, v.Idx, v.Type)
				}
				pos++
			case *ctypes.Node:
				if order[v] >= order[n] || order[v] < last {
					return "a reduction ran before one of its children or children were reduced out of order"
				}
				last = order[v]
				if s := walk(v); s != "" {
					return s
				}
			}
		}
		return ""
	}
	if s := walk(root); s != "" {
		return s
	}
	if pos != len(w) {
		return fmt.Sprintf("the tree has %d leaves, the input %d tokens", pos, len(w))
	}
	return ""
}

func maxInt(a, b int) int {
	if a > b {
		return a
	}
	return b
}

func c01Worker(c *mc.Ctx) {
	prm := c01Families(c.Quick())
	ws := pipe.NewWorkspace("c01")
	defer ws.Close()
	r := px.NewRunner(px.NB)
	for _, fam := range prm.fams {
		fam := fam
		fam.each(c, func(idx int64, g *gen.Grammar) {
			c.Stats.Add("grammars_generated", 1)
			b := px.Build(ws, g, px.NB)
			switch b.Status {
			case px.Conflicts:
				c.Stats.Add("grammars_with_conflicts", 1)
				return
			case px.Rejected:
				c.Stats.Add("grammars_rejected_otherwise", 1)
				c.Stats.Note("rejected: " + firstLine(b.Res.Diag) + " e.g. {" + g.String() + "}")
				return
			case px.Panicked:
				c.Stats.Violate(mc.Violation{Property: "C12", Check: "C01", Kind: "generator-panic", Size: len(g.String()),
					Case: mkCase(fam.Name, idx, g, prm.L, nil), Detail: "generator panicked on {" + g.String() + "}: " + firstLine(b.Res.Panic)})
				return
			case px.Broken:
				c.Stats.HarnessError("grammar {%s}: %s", g.String(), b.Problem)
				return
			}
			c.Stats.Add("grammars_accepted", 1)
			c.Stats.Validated++ // textual conformance generated-file == carrier runtime + tables held
			if len(c.Stats.Samples) < 3 && len(g.Rules) > 1 {
				c.Stats.Sample(map[string]any{"family": fam.Name, "grammar": g.String(), "strings_up_to": prm.L})
			}
			L, Lpos, Npos := prm.L, prm.Lpos, prm.Npos
			if fam.L > 0 {
				L, Lpos, Npos = fam.L, fam.Lpos, fam.Npos
			}
			for _, v := range c01Explore(b, r, fam.Name, idx, L, Lpos, Npos, &c.Stats) {
				c.Stats.Violate(v)
			}
		})
	}
}

func firstLine(s string) string {
	s = strings.TrimSpace(s)
	if i := strings.IndexByte(s, '\n'); i >= 0 {
		return s[:i]
	}
	return s
}

func c01Replay(raw json.RawMessage) *mc.Violation {
	var gc grammarCase
	if err := json.Unmarshal(raw, &gc); err != nil {
		return &mc.Violation{Property: "C01", Kind: "bad-replay", Detail: err.Error()}
	}
	ws := pipe.NewWorkspace("c01r")
	defer ws.Close()
	b := px.Build(ws, gc.Grammar, px.NB)
	if b.Status == px.Panicked {
		return &mc.Violation{Property: "C12", Check: "C01", Kind: "generator-panic", Detail: firstLine(b.Res.Panic)}
	}
	if b.Status != px.Accepted {
		return nil
	}
	r := px.NewRunner(px.NB)
	var st mc.Stats
	// gc.L is the exhaustive bound; a violation on a longer sentence is found on the positive side
	vs := c01Explore(b, r, gc.Family, gc.Index, gc.L, maxInt(gc.L, len(gc.Input)), 1<<30, &st)
	if len(vs) == 0 {
		return nil
	}
	return &vs[0]
}

func init() {
	mc.Register(&mc.Check{
		ID:    "C01",
		Level: "model_checking",
		Rule: "grammars: every member of G(n,t,p,l) (counter-enumerated, canonical under renaming of terminals and non-start non-terminals, all rules reachable) plus one-sugar variants; " +
			"each accepted grammar: every token string up to the length bound is parsed by the real generated runtime (carrier) with the grammar's real tables and compared with the reference sentence set; " +
			"non-trivial = accepted grammar with at least 2 sentences within the bound; states = distinct parser configurations (state stack, lookahead, input position) hashed per grammar, transitions = parser loop steps; " +
			"traces_validated_against_impl = grammars whose generated parser.gen.go/lexer.gen.go/base.gen.go equal the carrier's runtime text outside tables and _act",
		Assume: []string{
			"the generic tree-building action stands in for the user's actions (parse() control flow does not depend on action results)",
			"reference language: harness's own desugaring + Kleene iteration on length-truncated languages (internal/cfgref)",
			"fast ParseGo (in-process go/types) is equivalent to packages.Load for these self-contained packages; bound to the real path by the conformance check",
		},
		Worker: c01Worker,
		Replay: c01Replay,
	})
}
