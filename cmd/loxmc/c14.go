package main

import (
	"bytes"
	"encoding/json"
	"fmt"
	"github.com/dcaiafa/lox/verif/internal/root"
	"os"
	"os/exec"
	"path/filepath"
	"strings"

	"github.com/dcaiafa/lox/verif/internal/mc"
	"github.com/dcaiafa/lox/verif/internal/pipe"
)

var c14Dirs = []string{"internal/parser", "examples/calc", "examples/jsonc", "examples/bolox"}

func run(dir string, name string, args ...string) (string, error) {
	cmd := exec.Command(name, args...)
	cmd.Dir = dir
	var out bytes.Buffer
	cmd.Stdout = &out
	cmd.Stderr = &out
	err := cmd.Run()
	return out.String(), err
}

// copyTree copies the working tree of /repo (without .git) to dst.
func copyTree(src, dst string) error {
	out, err := run("/", "rsync", "-a", "--exclude", ".git", src+"/", dst+"/")
	if err != nil {
		return fmt.Errorf("rsync: %v: %s", err, out)
	}
	return nil
}

func genFiles(dir string) (map[string]string, error) {
	m := map[string]string{}
	ents, err := os.ReadDir(dir)
	if err != nil {
		return nil, err
	}
	for _, e := range ents {
		if strings.HasSuffix(e.Name(), ".gen.go") {
			b, err := os.ReadFile(filepath.Join(dir, e.Name()))
			if err != nil {
				return nil, err
			}
			m[e.Name()] = string(b)
		}
	}
	return m, nil
}

type c14Case struct {
	Dir    string `json:"dir"`
	Stage  string `json:"stage"`
	File   string `json:"file"`
	Detail string `json:"detail"`
}

func c14Worker(c *mc.Ctx) {
	tmpRoot, err := os.MkdirTemp(pipe.ScratchRoot(), "loxmc.c14.")
	if err != nil {
		c.Stats.HarnessError("%v", err)
		return
	}
	defer os.RemoveAll(tmpRoot)
	violate := func(dir, stage, file, detail string) {
		raw, _ := json.Marshal(c14Case{Dir: dir, Stage: stage, File: file, Detail: detail})
		c.Stats.Violate(mc.Violation{Property: "C14", Check: "C14", Kind: "not-a-fixpoint", Size: len(dir), Case: raw,
			Detail: fmt.Sprintf("%s, %s: %s %s", dir, stage, file, detail)})
	}
	// Stage 0: generator built from the current tree.
	lox1 := filepath.Join(tmpRoot, "lox1")
	if out, err := run(root.Repo(), "go", "build", "-o", lox1, "./cmd/lox"); err != nil {
		c.Stats.HarnessError("cannot build lox from the current tree: %v: %s", err, out)
		return
	}
	checked := map[string]map[string]string{}
	for _, d := range c14Dirs {
		m, err := genFiles(root.RepoPath(d))
		if err != nil {
			c.Stats.HarnessError("%v", err)
			return
		}
		checked[d] = m
	}
	// how: the way the directory is named on the command line ("." from inside
	// it, "root" = ./<dir> from the module root, "abs" = absolute path,
	// "sibling" = ../<name>/ from a directory next to it).
	regen := func(stage, tree, loxBin string, deleteFirst bool, how string) {
		for _, d := range c14Dirs {
			dir := filepath.Join(tree, d)
			if deleteFirst {
				for f := range checked[d] {
					os.Remove(filepath.Join(dir, f))
				}
			}
			c.Stats.Evaluations++
			var out string
			var err error
			switch how {
			case "root":
				out, err = run(tree, loxBin, "./"+d)
			case "abs":
				out, err = run("/", loxBin, dir)
			case "sibling":
				sib := filepath.Join(filepath.Dir(dir), "zz_elsewhere")
				os.MkdirAll(sib, 0o777)
				out, err = run(sib, loxBin, "../"+filepath.Base(dir)+"/")
				os.Remove(sib)
			default:
				out, err = run(dir, loxBin, ".")
			}
			if err != nil {
				violate(d, stage, "-", "lox failed on its own checked-in sources: "+firstLine(out))
				continue
			}
			got, err := genFiles(dir)
			if err != nil {
				c.Stats.HarnessError("%v", err)
				continue
			}
			for f, want := range checked[d] {
				c.Stats.Nontrivial++
				c.Stats.Add("files_compared", 1)
				g, ok := got[f]
				switch {
				case !ok:
					violate(d, stage, f, "was not regenerated")
				case g != want:
					violate(d, stage, f, "regenerated file differs from the checked-in one: "+pipe.FirstDiff(g, want))
				}
			}
			for f := range got {
				if _, ok := checked[d][f]; !ok {
					violate(d, stage, f, "is generated but not checked in")
				}
			}
			c.Stats.Sample(map[string]any{"dir": d, "stage": stage, "files": len(checked[d])})
		}
	}
	// Stage 1: regenerate a scratch copy with the current generator.
	t1 := filepath.Join(tmpRoot, "t1")
	if err := copyTree(root.Repo(), t1); err != nil {
		c.Stats.HarnessError("%v", err)
		return
	}
	regen("stage 1 (generator built from the tree, over the checked-in files)", t1, lox1, false, ".")
	// Stage 1b: from the state "generated files deleted" (examples only: lox's own
	// front end is needed to build lox, and is covered by stage 2).
	t1b := filepath.Join(tmpRoot, "t1b")
	if err := copyTree(root.Repo(), t1b); err != nil {
		c.Stats.HarnessError("%v", err)
		return
	}
	regen("stage 1b (generated files deleted first)", t1b, lox1, true, ".")
	// Stages 1c-1e: the same generator, the directory named in other ways.
	regen("stage 1c (directory named from the module root: lox ./<dir>)", t1b, lox1, false, "root")
	regen("stage 1d (directory named by its absolute path, from /)", t1b, lox1, false, "abs")
	regen("stage 1e (directory named from a sibling directory: lox ../<name>/)", t1b, lox1, true, "sibling")
	// Stage 2: build the generator from the regenerated tree and regenerate again.
	lox2 := filepath.Join(tmpRoot, "lox2")
	if out, err := run(t1, "go", "build", "-o", lox2, "./cmd/lox"); err != nil {
		violate("internal/parser", "stage 2", "-", "the tree with the regenerated front end does not build: "+firstLine(out))
		return
	}
	regen("stage 2 (generator rebuilt from the regenerated front end)", t1, lox2, false, ".")
}

func c14Replay(raw json.RawMessage) *mc.Violation {
	var st mc.Ctx
	st.NShards = 1
	c14Worker(&st)
	if len(st.Stats.Violations) == 0 {
		return nil
	}
	// same first violation every time: directories and files are visited in fixed order
	v := st.Stats.Violations[0]
	return &v
}

func init() {
	mc.Register(&mc.Check{
		ID:     "C14",
		Level:  "exploration",
		Rule:   "finite space, explored completely: directories {internal/parser, examples/calc, examples/jsonc, examples/bolox} x {stage 1: generator built from the current tree over the checked-in files; stage 1b: generated files deleted first; stages 1c-1e: the directory named from the module root, by absolute path, from a sibling directory; stage 2: generator rebuilt from the regenerated front end}; every *.gen.go must be byte-identical to the checked-in file; non-trivial = one (file, stage) comparison",
		Assume: []string{"go build of /repo's cmd/lox with the sandbox toolchain", "scratch copies live under /dev/shm and are removed"},
		Worker: c14Worker,
		Replay: c14Replay,
		Serial: true,
	})
}
