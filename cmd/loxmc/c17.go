package main

import (
	"encoding/json"
	"fmt"
	"regexp"
	"sort"
	"strconv"
	"strings"

	"github.com/dcaiafa/lox/verif/internal/mc"
	"github.com/dcaiafa/lox/verif/internal/pipe"
)

// decl is one declaration of a specification, printed by the harness (which
// therefore knows the file and line span of every declaration).
type decl struct {
	Sec   string   `json:"sec"`  // "lexer" / "parser"
	Mode  string   `json:"mode"` // lexer declarations: "" = default mode
	File  int      `json:"file"` // 0 / 1
	Lines []string `json:"lines"`
	Tag   string   `json:"tag,omitempty"`
}

type c17Spec struct {
	Decls []decl `json:"decls"`
}

type span struct {
	file       string
	start, end int
}

// render prints the files and returns the span of every declaration.
func (s *c17Spec) render() (map[string]string, []span) {
	files := map[string]string{}
	spans := make([]span, len(s.Decls))
	for f := 0; f < 2; f++ {
		var b strings.Builder
		line := 1
		emit := func(t string) {
			b.WriteString(t + "\n")
			line++
		}
		any := false
		for _, sec := range []string{"lexer", "parser"} {
			var idx []int
			for i, d := range s.Decls {
				if d.File == f && d.Sec == sec {
					idx = append(idx, i)
				}
			}
			if len(idx) == 0 {
				continue
			}
			any = true
			emit("@" + sec)
			put := func(i int, indent string) {
				spans[i] = span{file: fmt.Sprintf("%c.lox", 'a'+f), start: line}
				for _, l := range s.Decls[i].Lines {
					emit(indent + l)
				}
				spans[i].end = line - 1
			}
			if sec == "parser" {
				for _, i := range idx {
					put(i, "")
				}
				continue
			}
			// default mode first, then each mode in order of first appearance
			var modes []string
			seen := map[string]bool{}
			for _, i := range idx {
				m := s.Decls[i].Mode
				if m != "" && !seen[m] {
					seen[m] = true
					modes = append(modes, m)
				}
			}
			for _, i := range idx {
				if s.Decls[i].Mode == "" {
					put(i, "")
				}
			}
			for _, m := range modes {
				emit("@mode " + m + " {")
				for _, i := range idx {
					if s.Decls[i].Mode == m {
						put(i, "  ")
					}
				}
				emit("}")
			}
		}
		if any {
			files[fmt.Sprintf("%c.lox", 'a'+f)] = b.String()
		}
	}
	return files, spans
}

func lx1(mode string, file int, tag, line string) decl {
	return decl{Sec: "lexer", Mode: mode, File: file, Lines: []string{line}, Tag: tag}
}
func pr1(file int, tag string, lines ...string) decl {
	return decl{Sec: "parser", File: file, Lines: lines, Tag: tag}
}

// c17Bases: well-formed specifications that between them use every construct.
// Patterns are pairwise disjoint inside a mode so that moving declarations
// between files never creates an ordering conflict.
func c17Bases() []*c17Spec {
	b1 := &c17Spec{Decls: []decl{
		lx1("", 0, "macro:HEX", "@macro HEX = [0-9a-f]"),
		lx1("", 0, "macro:HH", "@macro HH = HEX HEX"),
		lx1("", 0, "token:NUM", "NUM = [0-9]+"),
		lx1("", 0, "token:ID", "ID = [g-z] [g-z0-9_]*"),
		lx1("", 0, "token:PLUS", "PLUS = '+'"),
		lx1("", 0, "token:COMMA", "COMMA = ','"),
		lx1("", 0, "token:LP", "LP = '('"),
		lx1("", 0, "token:RP", "RP = ')'"),
		lx1("", 0, "token:SEMI", "SEMI = ';'"),
		lx1("", 0, "external:EXT", "@external EXT"),
		lx1("", 0, "frag:ws", "@frag [ \\n\\t]+ @discard"),
		lx1("", 0, "token:STRB", "STRB = '\"' @push_mode(Str)"),
		lx1("Str", 0, "token:STRE", "STRE = '\"' @pop_mode"),
		lx1("Str", 0, "token:CH", "CH = ~[\"\\\\\\n]+"),
		lx1("Str", 0, "frag:hex", "@frag '\\\\x' HH @emit(CH)"),
		lx1("Str", 0, "frag:esc", "@frag '\\\\' [nrt]"),
		pr1(0, "rule:prog", "@start prog = item*!"),
		pr1(0, "rule:item", "item = ID '(' @list(expr, ',')? ')' SEMI", "  | STRB CH* STRE SEMI", "  | @error SEMI"),
		pr1(0, "rule:expr", "expr = NUM", "  | ID", "  | LP expr RP", "  | expr '+' NUM @left(1)"),
		pr1(0, "rule:opt", "opt = NUM? ID+"),
	}}
	// second base: two files, rules in second file, a mode in second file
	b2 := &c17Spec{Decls: []decl{
		lx1("", 0, "token:A", "A = 'a'"),
		lx1("", 0, "token:B", "B = 'b' 'b'?"),
		lx1("", 0, "macro:M1", "@macro M1 = [c-d] | 'ee'"),
		lx1("", 0, "token:C", "C = M1+"),
		lx1("", 1, "token:D", "D = [x-z]-[y]"),
		lx1("", 1, "frag:f", "@frag 'ff' (. 'g')*? 'h' @discard"),
		lx1("Alt", 1, "token:E", "E = 'a' @pop_mode"),
		lx1("", 1, "token:P", "P = 'p' @push_mode(Alt)"),
		pr1(0, "rule:s", "@start s = t* D u"),
		pr1(1, "rule:t", "t = A | B C | @list(P, E)"),
		pr1(1, "rule:u", "u = @empty | B"),
	}}
	return []*c17Spec{b1, b2}
}

func (s *c17Spec) clone() *c17Spec {
	c := &c17Spec{}
	for _, d := range s.Decls {
		c.Decls = append(c.Decls, decl{Sec: d.Sec, Mode: d.Mode, File: d.File, Lines: append([]string(nil), d.Lines...), Tag: d.Tag})
	}
	return c
}

type c17Variant struct {
	Name   string   `json:"name"`
	Spec   *c17Spec `json:"spec"`
	Fault  int      `json:"fault"`  // index of the faulty declaration, -1 = no particular declaration
	Fault2 int      `json:"fault2"` // second declaration involved (duplicates), -1 = none
	Benign bool     `json:"benign"`
}

// lexSites: where a new lexer declaration can be put.
type site struct {
	mode string
	file int
	name string
}

func c17Variants(base *c17Spec, bi int) []c17Variant {
	var out []c17Variant
	name := func(f string, a ...any) string { return fmt.Sprintf("base%d/", bi) + fmt.Sprintf(f, a...) }
	modeOf := ""
	for _, d := range base.Decls {
		if d.Mode != "" {
			modeOf = d.Mode
		}
	}
	modeFile := 0
	for _, d := range base.Decls {
		if d.Mode != "" {
			modeFile = d.File
		}
	}
	// a mode block cannot be re-opened (in the same or another file), so
	// in-mode declarations go to the file that holds the mode
	sites := []site{{"", 0, "default"}, {modeOf, modeFile, "in-mode"}, {"", 1, "file2"}}
	addLex := func(vn string, line string, st site, other int) {
		c := base.clone()
		// in-mode declarations must live in the file of the mode's other rules?
		// a mode may be re-opened in another file; keep that as a site too
		c.Decls = append(c.Decls, lx1(st.mode, st.file, "fault", line))
		out = append(out, c17Variant{Name: name("%s@%s", vn, st.name), Spec: c, Fault: len(c.Decls) - 1, Fault2: other})
	}
	addPar := func(vn string, file int, other int, lines ...string) {
		c := base.clone()
		c.Decls = append(c.Decls, pr1(file, "fault", lines...))
		out = append(out, c17Variant{Name: name("%s@parser-file%d", vn, file+1), Spec: c, Fault: len(c.Decls) - 1, Fault2: other})
	}
	find := func(prefix string) (int, string) {
		for i, d := range base.Decls {
			if strings.HasPrefix(d.Tag, prefix+":") {
				return i, strings.TrimPrefix(d.Tag, prefix+":")
			}
		}
		return -1, ""
	}
	tokI, tokN := find("token")
	tokN2 := "" // a second token, for faults that need two different ones
	for _, d := range base.Decls {
		if n, ok := strings.CutPrefix(d.Tag, "token:"); ok && n != tokN {
			tokN2 = n
			break
		}
	}
	macI, macN := find("macro")
	extI, extN := find("external")
	ruleI, ruleN := find("rule")
	modeI := -1
	for i, d := range base.Decls {
		if d.Mode != "" {
			modeI = i
			break
		}
	}
	fresh := 0
	freshPat := func() string { // a pattern disjoint from everything in the bases
		fresh++
		return fmt.Sprintf("'\\u%04X'", 0x2200+fresh)
	}

	// ---- benign variants -------------------------------------------------
	out = append(out, c17Variant{Name: name("identity"), Spec: base.clone(), Fault: -1, Fault2: -1, Benign: true})
	for i := 0; i+1 < len(base.Decls); i++ {
		a, b := base.Decls[i], base.Decls[i+1]
		if a.Sec == b.Sec && a.Mode == b.Mode && a.File == b.File {
			c := base.clone()
			c.Decls[i], c.Decls[i+1] = c.Decls[i+1], c.Decls[i]
			out = append(out, c17Variant{Name: name("swap-%d-%d", i, i+1), Spec: c, Fault: -1, Fault2: -1, Benign: true})
		}
	}
	for i, d := range base.Decls {
		// move a whole declaration to the other file (not the rules of a mode:
		// a mode block cannot be split)
		if d.Mode != "" {
			continue
		}
		c := base.clone()
		c.Decls[i].File = 1 - d.File
		out = append(out, c17Variant{Name: name("move-%d-to-file%d", i, 2-d.File), Spec: c, Fault: -1, Fault2: -1, Benign: true})
	}
	for _, st := range sites {
		c := base.clone()
		c.Decls = append(c.Decls, lx1(st.mode, st.file, "new", "NEWTOK = "+freshPat()+" [\\u2300-\\u2310]*"))
		out = append(out, c17Variant{Name: name("extra-token@%s", st.name), Spec: c, Fault: -1, Fault2: -1, Benign: true})
		c = base.clone()
		c.Decls = append(c.Decls, lx1(st.mode, st.file, "new", "@frag "+freshPat()+" @discard"))
		out = append(out, c17Variant{Name: name("extra-frag@%s", st.name), Spec: c, Fault: -1, Fault2: -1, Benign: true})
	}

	// ---- faults ------------------------------------------------------------
	// duplicate names across kinds
	type nm struct {
		kind string
		idx  int
		name string
	}
	var existing []nm
	for _, e := range []nm{{"token", tokI, tokN}, {"macro", macI, macN}, {"external", extI, extN}, {"rule", ruleI, ruleN}} {
		if e.idx >= 0 {
			existing = append(existing, e)
		}
	}
	if modeI >= 0 {
		existing = append(existing, nm{"mode", modeI, modeOf})
	}
	for _, e := range existing {
		for _, st := range sites {
			addLex("dup-token-vs-"+e.kind, e.name+" = "+freshPat(), st, e.idx)
			addLex("dup-macro-vs-"+e.kind, "@macro "+e.name+" = "+freshPat(), st, e.idx)
			addLex("dup-external-vs-"+e.kind, "@external "+e.name, st, e.idx)
		}
		for f := 0; f < 2; f++ {
			addPar("dup-rule-vs-"+e.kind, f, e.idx, e.name+" = "+tokN)
			// a mode with the name
			c := base.clone()
			c.Decls = append(c.Decls, lx1(e.name, f, "fault", "@frag "+freshPat()+" @discard"))
			if e.kind != "mode" { // re-opening an existing mode is just more rules (not a fault in this harness's printing)
				out = append(out, c17Variant{Name: name("dup-mode-vs-%s@file%d", e.kind, f+1), Spec: c, Fault: len(c.Decls) - 1, Fault2: e.idx})
			}
		}
	}
	// naming rules
	for _, bad := range []string{"Abc", "abc", "A_", "A__B", "EOF", "ERROR"} {
		for _, st := range sites {
			addLex("name-token-"+bad, bad+" = "+freshPat(), st, -1)
			addLex("name-macro-"+bad, "@macro "+bad+" = "+freshPat(), st, -1)
			addLex("name-external-"+bad, "@external "+bad, st, -1)
		}
	}
	for f := 0; f < 2; f++ {
		addPar("name-rule-a__b", f, -1, "a__b = "+tokN)
	}
	// undefined / wrong-kind references
	for _, st := range sites {
		addLex("undef-macro-in-token", "UT = "+freshPat()+" NOPE", st, -1)
		addLex("undef-macro-in-frag", "@frag "+freshPat()+" NOPE @discard", st, -1)
		addLex("undef-macro-in-macro", "@macro UM = "+freshPat()+" | NOPE+", st, -1)
		addLex("undef-macro-in-group", "UG = "+freshPat()+" ([a] | (NOPE))*", st, -1)
		addLex("ref-token-as-macro", "UR = "+freshPat()+" "+tokN, st, -1)
		addLex("undef-mode", "UP = "+freshPat()+" @push_mode(Nope)", st, -1)
		addLex("undef-mode-frag", "@frag "+freshPat()+" @push_mode(Nope) @discard", st, -1)
		addLex("undef-emit", "@frag "+freshPat()+" @emit(NOPE)", st, -1)
		if macN != "" {
			addLex("emit-not-token", "@frag "+freshPat()+" @emit("+macN+")", st, -1)
		}
		// action placement
		addLex("discard-on-token", "DT = "+freshPat()+" @discard", st, -1)
		addLex("emit-on-token", "ET = "+freshPat()+" @emit("+tokN+")", st, -1)
		addLex("two-discards", "@frag "+freshPat()+" @discard @discard", st, -1)
		addLex("two-emits", "@frag "+freshPat()+" @emit("+tokN+") @emit("+tokN+")", st, -1)
		addLex("discard-and-emit", "@frag "+freshPat()+" @discard @emit("+tokN+")", st, -1)
		addLex("two-discards-apart", "@frag "+freshPat()+" @discard @push_mode() @discard", st, -1)
		addLex("two-emits-apart", "@frag "+freshPat()+" @emit("+tokN+") @push_mode() @emit("+tokN+")", st, -1)
		if tokN2 != "" {
			addLex("two-emits-different", "@frag "+freshPat()+" @emit("+tokN+") @emit("+tokN2+")", st, -1)
			addLex("two-emits-different-reversed", "@frag "+freshPat()+" @emit("+tokN2+") @emit("+tokN+")", st, -1)
			addLex("two-emits-different-apart", "@frag "+freshPat()+" @emit("+tokN+") @push_mode() @emit("+tokN2+")", st, -1)
			addLex("emit-discard-emit", "@frag "+freshPat()+" @emit("+tokN+") @discard @emit("+tokN2+")", st, -1)
		}
		addLex("emit-and-discard", "@frag "+freshPat()+" @emit("+tokN+") @push_mode() @discard", st, -1)
		// empty literal
		addLex("empty-literal-token", "EL = ''", st, -1)
		addLex("empty-literal-in-seq", "EL = "+freshPat()+" '' [a]", st, -1)
		addLex("empty-literal-frag", "@frag ('' | "+freshPat()+") @discard", st, -1)
		addLex("empty-literal-macro", "@macro EM = "+freshPat()+" ''?", st, -1)
		// reversed ranges
		addLex("reversed-range", "RR = "+freshPat()+" [z-a]", st, -1)
		addLex("reversed-range-neg", "RR = "+freshPat()+" ~[b-a]", st, -1)
		addLex("reversed-range-diff-left", "RR = "+freshPat()+" [z-y]-[a]", st, -1)
		addLex("reversed-range-diff-right", "RR = "+freshPat()+" [a-z]-[9-0]", st, -1)
		addLex("reversed-range-second-item", "RR = "+freshPat()+" [ab-ac-a]", st, -1)
		addLex("reversed-range-macro", "@macro RM = "+freshPat()+" [\\u0002-\\u0001]", st, -1)
		addLex("reversed-range-frag", "@frag "+freshPat()+" [9-0]+ @discard", st, -1)
		// macro cycles
		addLex("macro-cycle-1-unused", "@macro CY = "+freshPat()+" CY", st, -1)
	}
	for _, st := range sites {
		c := base.clone()
		c.Decls = append(c.Decls, lx1(st.mode, st.file, "fault", "@macro CY = "+freshPat()+" CY*"), lx1(st.mode, st.file, "use", "CU = "+freshPat()+" CY"))
		out = append(out, c17Variant{Name: name("macro-cycle-1@%s", st.name), Spec: c, Fault: len(c.Decls) - 2, Fault2: -1})
	}
	// macro cycles of length 2, 3 (several declarations; any of them is "the" fault)
	for _, st := range sites {
		c := base.clone()
		c.Decls = append(c.Decls, lx1(st.mode, st.file, "fault", "@macro CA = "+freshPat()+" CB"), lx1(st.mode, st.file, "fault", "@macro CB = CA?"), lx1(st.mode, st.file, "use", "CU = "+freshPat()+" CA"))
		out = append(out, c17Variant{Name: name("macro-cycle-2@%s", st.name), Spec: c, Fault: len(c.Decls) - 3, Fault2: len(c.Decls) - 2})
		c = base.clone()
		c.Decls = append(c.Decls, lx1(st.mode, st.file, "fault", "@macro CA = "+freshPat()+" CB"), lx1(st.mode, st.file, "fault", "@macro CB = CC | 'q'"), lx1(st.mode, st.file, "fault", "@macro CC = (CA)"), lx1(st.mode, st.file, "use", "CU = "+freshPat()+" CC"))
		out = append(out, c17Variant{Name: name("macro-cycle-3@%s", st.name), Spec: c, Fault: len(c.Decls) - 4, Fault2: -2})
	}
	// references to a name of the wrong kind: every kind of reference x every
	// kind of declared name (the legal pairs are what the bases use)
	{
		inModeTok := ""
		for _, d := range base.Decls {
			if d.Mode != "" && strings.HasPrefix(d.Tag, "token:") {
				inModeTok = strings.TrimPrefix(d.Tag, "token:")
			}
		}
		type ref struct{ kind, name string }
		var refs []ref
		for _, r := range []ref{{"token", tokN}, {"mode-token", inModeTok}, {"macro", macN}, {"external", extN}, {"rule", ruleN}, {"mode", modeOf}} {
			if r.name != "" {
				refs = append(refs, r)
			}
		}
		for _, r := range refs {
			for _, st := range sites {
				if r.kind != "macro" {
					addLex("macro-ref-to-"+r.kind, "WK = "+freshPat()+" "+r.name, st, -1)
					addLex("macro-ref-in-macro-to-"+r.kind, "@macro WKM = "+freshPat()+" ("+r.name+")?", st, -1)
				}
				if r.kind != "mode" {
					addLex("push-mode-to-"+r.kind, "WK = "+freshPat()+" @push_mode("+r.name+")", st, -1)
					addLex("push-mode-frag-to-"+r.kind, "@frag "+freshPat()+" @discard @push_mode("+r.name+")", st, -1)
				}
				if r.kind != "token" && r.kind != "mode-token" && r.kind != "external" {
					addLex("emit-to-"+r.kind, "@frag "+freshPat()+" @emit("+r.name+")", st, -1)
				}
			}
			if r.kind == "macro" || r.kind == "mode" {
				for f := 0; f < 2; f++ {
					addPar("parser-term-to-"+r.kind, f, -1, "wk1 = "+tokN+" "+r.name)
					addPar("parser-card-to-"+r.kind, f, -1, "wk2 = "+r.name+"* "+tokN)
					addPar("parser-list-elem-to-"+r.kind, f, -1, "wk3 = @list("+r.name+", "+tokN+")")
					addPar("parser-list-sep-to-"+r.kind, f, -1, "wk4 = @list("+tokN+", "+r.name+")")
				}
			}
		}
	}
	// parser references
	for f := 0; f < 2; f++ {
		addPar("undef-token", f, -1, "u1 = "+tokN+" NOPE")
		addPar("undef-rule", f, -1, "u2 = nope "+tokN)
		addPar("undef-in-list", f, -1, "u3 = @list(NOPE, "+tokN+")")
		addPar("undef-list-sep", f, -1, "u3 = @list("+tokN+", nope)?")
		addPar("undef-in-card", f, -1, "u4 = "+tokN+" nope*")
		addPar("undef-in-second-alt", f, -1, "u5 = "+tokN, "  | "+tokN+" "+tokN, "  | NOPE+")
		addPar("undef-alias", f, -1, "u6 = "+tokN+" '@@'")
		addPar("undef-alias-in-list", f, -1, "u6 = @list("+tokN+", '@@')")
		if macN != "" {
			addPar("macro-in-parser", f, -1, "u7 = "+macN)
		}
		addPar("second-start", f, -2, "@start again = "+tokN)
	}
	// ambiguous alias: two tokens with the same literal, used by the parser
	for _, st := range sites {
		c := base.clone()
		p := freshPat()
		c.Decls = append(c.Decls, lx1("", 0, "tok", "AMB1 = "+p), lx1(st.mode, st.file, "tok", "AMB2 = "+p))
		c.Decls = append(c.Decls, pr1(st.file, "fault", "amb = "+p))
		// overlapping patterns in one mode across files are an ordering conflict of their own; keep AMB2 in another mode or same file
		if !(st.mode == "" && st.file == 1) || true {
			out = append(out, c17Variant{Name: name("ambiguous-alias@%s", st.name), Spec: c, Fault: len(c.Decls) - 1, Fault2: -1})
		}
	}
	// a literal alias exists only for a token whose whole body is one plain
	// literal; the same literal under a cardinality defines none
	for _, st := range sites {
		for ci, card := range []string{"+", "*", "?"} {
			c := base.clone()
			p := freshPat()
			c.Decls = append(c.Decls, lx1(st.mode, st.file, "tok", "CARD = "+p+card))
			c.Decls = append(c.Decls, pr1(st.file, "fault", "uc = "+tokN+" "+p))
			out = append(out, c17Variant{Name: name("alias-of-repeated-literal-%d@%s", ci, st.name), Spec: c, Fault: len(c.Decls) - 1, Fault2: -1})
			// and it does not make the alias of a plain-literal token ambiguous
			c = base.clone()
			c.Decls = append(c.Decls, lx1("", 0, "tok", "PLAIN = "+p), lx1("CardMode", st.file, "tok", "CARD = "+p+card))
			c.Decls = append(c.Decls, pr1(st.file, "use", "uc = "+tokN+" "+p))
			out = append(out, c17Variant{Name: name("alias-next-to-repeated-literal-%d@%s", ci, st.name), Spec: c, Fault: -1, Fault2: -1, Benign: true})
		}
	}
	// three and four tokens sharing one literal (one per mode / file), used by the parser
	for n := 3; n <= 4; n++ {
		for f := 0; f < 2; f++ {
			c := base.clone()
			p := freshPat()
			c.Decls = append(c.Decls, lx1("", 0, "tok", "AMB1 = "+p))
			for k := 2; k <= n; k++ {
				c.Decls = append(c.Decls, lx1(fmt.Sprintf("AmbMode%d", k), f, "tok", fmt.Sprintf("AMB%d = %s", k, p)))
			}
			c.Decls = append(c.Decls, pr1(f, "fault", "amb = "+p))
			out = append(out, c17Variant{Name: name("ambiguous-alias-%d-tokens@file%d", n, f+1), Spec: c, Fault: len(c.Decls) - 1, Fault2: -1})
		}
	}
	// zero @start
	{
		c := base.clone()
		for i := range c.Decls {
			for j := range c.Decls[i].Lines {
				c.Decls[i].Lines[j] = strings.Replace(c.Decls[i].Lines[j], "@start ", "", 1)
			}
		}
		out = append(out, c17Variant{Name: name("no-start"), Spec: c, Fault: -1, Fault2: -1})
	}
	return out
}

// faultFamily is the variant name without base and site.
func faultFamily(name string) string {
	if i := strings.IndexByte(name, '/'); i >= 0 {
		name = name[i+1:]
	}
	if i := strings.IndexByte(name, '@'); i >= 0 {
		name = name[:i]
	}
	return name
}

var diagRe = regexp.MustCompile(`(?m)^([a-z]\.lox):(\d+):(\d+): `)

func c17Check(ws *pipe.Workspace, v *c17Variant, st *mc.Stats) []mc.Violation {
	files, spans := v.Spec.render()
	st.Evaluations++
	res, _ := ws.RunFront(&pipe.Spec{Lox: files}, false)
	raw, _ := json.Marshal(v)
	var text []string
	var fns []string
	for f := range files {
		fns = append(fns, f)
	}
	sort.Strings(fns)
	for _, f := range fns {
		text = append(text, "---- "+f+" ----\n"+files[f])
	}
	mk := func(prop, kind, detail string) []mc.Violation {
		return []mc.Violation{{Property: prop, Check: "C17", Kind: kind, Size: len(v.Spec.Decls), Case: raw,
			Detail: fmt.Sprintf("%s: %s\ndiagnostics: %s\n%s", v.Name, detail, strings.TrimSpace(res.Diag), strings.Join(text, ""))}}
	}
	if res.Panic != "" {
		return mk("C12", "generator-panic", "the front end panicked: "+firstLine(res.Panic))
	}
	if v.Benign {
		st.Add("benign_variants", 1)
		if !res.OK {
			return mk("C17", "valid-rejected", "a well-formed specification was rejected")
		}
		return nil
	}
	st.Add("fault_variants", 1)
	st.Nontrivial++
	if res.OK {
		return mk("C17", "fault-accepted:"+faultFamily(v.Name), "an ill-formed specification was accepted")
	}
	if strings.TrimSpace(res.Diag) == "" {
		return mk("C17", "no-diagnostic", "rejected without any diagnostic")
	}
	if v.Fault < 0 {
		return nil
	}
	// position: some diagnostic must name a line inside the faulty declaration(s)
	var want []span
	want = append(want, spans[v.Fault])
	switch {
	case v.Fault2 >= 0:
		want = append(want, spans[v.Fault2])
	case v.Fault2 == -2:
		// every declaration tagged "fault", or, for a second @start, the first one too
		for i, d := range v.Spec.Decls {
			if d.Tag == "fault" || strings.Contains(strings.Join(d.Lines, " "), "@start") {
				want = append(want, spans[i])
			}
		}
	}
	for _, m := range diagRe.FindAllStringSubmatch(res.Diag, -1) {
		line, _ := strconv.Atoi(m[2])
		for _, sp := range want {
			if m[1] == sp.file && line >= sp.start && line <= sp.end {
				return nil
			}
		}
	}
	sp := spans[v.Fault]
	return mk("C17", "wrong-position:"+faultFamily(v.Name), fmt.Sprintf("no diagnostic names a position inside the faulty declaration (%s lines %d-%d)", sp.file, sp.start, sp.end))
}

func c17Worker(c *mc.Ctx) {
	ws := pipe.NewWorkspace("c17")
	defer ws.Close()
	n := int64(0)
	for bi, base := range c17Bases() {
		for _, v := range c17Variants(base, bi) {
			n++
			if !c.Mine(n) {
				continue
			}
			v := v
			if len(c.Stats.Samples) < 3 && n%131 == 7 {
				files, _ := v.Spec.render()
				c.Stats.Sample(map[string]any{"variant": v.Name, "benign": v.Benign, "files": files})
			}
			for _, viol := range c17Check(ws, &v, &c.Stats) {
				c.Stats.Violate(viol)
			}
		}
	}
}

func c17Replay(raw json.RawMessage) *mc.Violation {
	var v c17Variant
	if err := json.Unmarshal(raw, &v); err != nil {
		return &mc.Violation{Property: "C17", Kind: "bad-replay", Detail: err.Error()}
	}
	ws := pipe.NewWorkspace("c17r")
	defer ws.Close()
	var st mc.Stats
	vs := c17Check(ws, &v, &st)
	if len(vs) == 0 {
		return nil
	}
	return &vs[0]
}

func init() {
	mc.Register(&mc.Check{
		ID:    "C17",
		Level: "fault_enumeration",
		Rule: "two well-formed base specifications (tokens, fragments with every action, nested macros, modes, @external, literal aliases, @list, ? * + *!, @error, two files) and their benign variants (adjacent swaps, every declaration moved to the other file, extra declarations at every site) must be accepted; " +
			"every single fault of the catalogue (duplicate name for every pair of kinds, every naming-rule breach, every undefined or wrong-kind reference, ambiguous alias, alias of a literal that stands under a cardinality, macro cycles of length 1-3, zero/two @start, @discard/@emit misuse, empty literal, reversed ranges) placed at every applicable site (default mode, inside a mode, second file, second file inside a mode, macro body, group, @list, later alternative) must be rejected with a diagnostic positioned inside the faulty declaration; non-trivial = one fault variant",
		Assume: []string{"the harness prints the text and therefore knows each declaration's file and line span", "only the front end (parse, analysis, LALR construction) is run; all the listed faults are detected there"},
		Worker: c17Worker,
		Replay: c17Replay,
	})
}
