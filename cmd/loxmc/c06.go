package main

import (
	"encoding/json"
	"fmt"
	goast "go/ast"
	goparser "go/parser"
	gotoken "go/token"
	gotypes "go/types"
	"regexp"
	"sort"
	"strconv"
	"strings"
	"sync"

	"github.com/dcaiafa/lox/verif/internal/mc"
	"github.com/dcaiafa/lox/verif/internal/pipe"
	"github.com/dcaiafa/lox/verif/internal/st3"
)

// ---------------------------------------------------------------------------
// Go type menu.

type goType struct {
	key      string // short id
	expr     string // type expression
	sentinel string // non-zero, distinguishable value expression of that type ("" = type only used as a parameter)
	eq       string // Go expression comparing x (any, the parameter boxed) with the sentinel: uses helper functions of the user package
	imports  []string
}

// Declarations shared by every generated user package.
const c06Decls = `
type S struct{ V int }

func (s S) M() int { return s.V }

type I interface{ M() int }
type J interface{ Q() }
type NS []int
type NM map[string]int
type NF func() int
type MyInt int
type Box[T any] struct{ V T }

var theChan = make(chan int, 1)
var theBuilder = &strings.Builder{}
var thePtr = &S{V: 41}

func same(x, y any) bool {
	vx, vy := reflect.ValueOf(x), reflect.ValueOf(y)
	if vx.IsValid() != vy.IsValid() {
		return false
	}
	if !vx.IsValid() {
		return true
	}
	if vx.Type() != vy.Type() {
		return false
	}
	switch vx.Kind() {
	case reflect.Func:
		if vx.IsNil() || vy.IsNil() {
			return vx.IsNil() == vy.IsNil()
		}
		return vx.Call(nil)[0].Int() == vy.Call(nil)[0].Int()
	case reflect.Slice:
		if vx.Len() != vy.Len() {
			return false
		}
		for i := 0; i < vx.Len(); i++ {
			if !same(vx.Index(i).Interface(), vy.Index(i).Interface()) {
				return false
			}
		}
		return true
	}
	return reflect.DeepEqual(x, y)
}
`

var c06Types = []goType{
	{key: "S", expr: "S", sentinel: "S{V: 7}"},
	{key: "PS", expr: "*S", sentinel: "thePtr"},
	{key: "slice", expr: "[]int", sentinel: "[]int{1, 2}"},
	{key: "NS", expr: "NS", sentinel: "NS{3, 4}"},
	{key: "map", expr: "map[string]int", sentinel: `map[string]int{"k": 5}`},
	{key: "NM", expr: "NM", sentinel: `NM{"k": 6}`},
	{key: "func", expr: "func() int", sentinel: "func() int { return 11 }"},
	{key: "NF", expr: "NF", sentinel: "NF(func() int { return 12 })"},
	{key: "BoxInt", expr: "Box[int]", sentinel: "Box[int]{V: 13}"},
	{key: "Dur", expr: "time.Duration", sentinel: "time.Duration(14)", imports: []string{"time"}},
	{key: "PBuilder", expr: "*strings.Builder", sentinel: "theBuilder"},
	{key: "chan", expr: "chan int", sentinel: "theChan"},
	{key: "int", expr: "int", sentinel: "15"},
	{key: "I", expr: "I", sentinel: "I(S{V: 16})"},
	{key: "any", expr: "any", sentinel: "any(17)"},
	// parameter-only types
	{key: "J", expr: "J"},
	{key: "BoxStr", expr: "Box[string]"},
	{key: "MyInt", expr: "MyInt"},
	{key: "rchan", expr: "<-chan int"},
	{key: "PNS", expr: "*NS"},
	{key: "slice64", expr: "[]int64"},
	{key: "Stringer", expr: "fmt.Stringer"},
}

func c06Type(key string) goType {
	for _, t := range c06Types {
		if t.key == key {
			return t
		}
	}
	panic("unknown type " + key)
}

// c06Assignable is the expected verdict, written down from the Go
// specification's assignability rules (identical types; identical underlying
// types when at least one side is not a named type; interface implemented;
// bidirectional channel to directional one with identical element types).
// It is cross-checked against go/types at run time.
func c06Assignable(t, p string) bool {
	if t == p || p == "any" {
		return true
	}
	pairs := map[string]bool{
		"S>I": true, "PS>I": true, // S has M() with value receiver
		"slice>NS": true, "NS>slice": true,
		"map>NM": true, "NM>map": true,
		"func>NF": true, "NF>func": true,
		"chan>rchan":   true,
		"I>any":        true,
		"Dur>Stringer": true, "PBuilder>Stringer": true,
	}
	return pairs[t+">"+p]
}

// ---------------------------------------------------------------------------
// Cases.

type c06Case struct {
	Pkg      string   `json:"pkg,omitempty"` // package (and directory) name, default p<i>
	Name     string   `json:"name"`
	Lox      string   `json:"lox"`
	User     string   `json:"user"`
	ExpectOK bool     `json:"expect_ok"`
	Blame    []string `json:"blame,omitempty"` // acceptable diagnostic anchors: "lox:<line>" or "go:<line>"
	Checks   int      `json:"checks"`          // number of value-flow checks the program performs when run
	// VerdictOnly: the case belongs to the binding matrix: verdict and diagnostics are checked, an acceptance is not compiled
	VerdictOnly bool              `json:"verdict_only,omitempty"`
	Inputs      [][]int           `json:"inputs,omitempty"` // sentences to run (token numbers); default: chosen from the grammar's shape
	Extra       map[string]string `json:"-"`
}

const c06LoxHead = "@lexer\nA = 'a'\nB = 'b'\nC = 'c'\nCOMMA = ','\n@frag [ \\n]+ @discard\n@parser\n"

func c06UserHead(pkg string, imports []string) string {
	imp := map[string]bool{"reflect": true, "strings": true, "fmt": true}
	for _, i := range imports {
		imp[i] = true
	}
	var is []string
	for i := range imp {
		is = append(is, i)
	}
	sort.Strings(is)
	var b strings.Builder
	fmt.Fprintf(&b, "package %s\n\nimport (\n", pkg)
	for _, i := range is {
		fmt.Fprintf(&b, "\t%q\n", i)
	}
	b.WriteString(")\n\nvar _ = fmt.Sprint\n\ntype Token struct {\n\tType int\n\tIdx  int\n}\n\ntype runState struct {\n\tfails  []string\n\tchecks int\n\tn      int\n}\n\ntype parser struct {\n\tlox\n\tst *runState\n}\n")
	b.WriteString(c06Decls)
	b.WriteString(`
func (p *parser) expect(what string, got, want any) {
	p.st.checks++
	if !same(got, want) {
		p.st.fails = append(p.st.fails, fmt.Sprintf("%s: got %#v, the action for that term returned %#v", what, got, want))
	}
}

type sliceLexer struct {
	toks []int
	pos  int
}

func (l *sliceLexer) ReadToken() (Token, int) {
	if l.pos >= len(l.toks) {
		return Token{Type: EOF, Idx: len(l.toks)}, EOF
	}
	t := Token{Type: l.toks[l.pos], Idx: l.pos + 100}
	l.pos++
	return t, t.Type
}

func Run(toks []int) (ok bool, checks int, fails []string, panicked string) {
	p := &parser{st: &runState{n: len(toks)}}
	defer func() {
		if x := recover(); x != nil {
			panicked = fmt.Sprint(x)
		}
	}()
	ok = p.parse(&sliceLexer{toks: toks})
	return ok, p.st.checks, p.st.fails, ""
}
`)
	return b.String()
}

// lineOf returns the 1-based line of the first occurrence of needle.
func lineOf(text, needle string) int {
	i := strings.Index(text, needle)
	if i < 0 {
		return -1
	}
	return strings.Count(text[:i], "\n") + 1
}

func c06Cases(quick bool) []*c06Case {
	var out []*c06Case
	add := func(name, parser, methods string, imports []string, ok bool, checks int, blame ...string) {
		lox := c06LoxHead + parser
		user := c06UserHead("PKG", imports) + "\n" + methods
		cs := &c06Case{Name: name, Lox: lox, User: user, ExpectOK: ok, Checks: checks}
		for _, b := range blame {
			switch {
			case strings.HasPrefix(b, "lox:"):
				cs.Blame = append(cs.Blame, fmt.Sprintf("lox:%d", lineOf(lox, b[4:])))
			case strings.HasPrefix(b, "go:"):
				cs.Blame = append(cs.Blame, fmt.Sprintf("go:%d", lineOf(user, b[3:])))
			}
		}
		out = append(out, cs)
	}
	// Axis 2: the (T, P) matrix on four term shapes: plain rule term, optional, list, @list.
	var tkeys, pkeys []string
	for _, t := range c06Types {
		if t.sentinel != "" {
			tkeys = append(tkeys, t.key)
		}
		pkeys = append(pkeys, t.key)
	}
	for _, tk := range tkeys {
		for _, pk := range pkeys {
			T, P := c06Type(tk), c06Type(pk)
			imports := append(append([]string{}, T.imports...), P.imports...)
			asg := c06Assignable(tk, pk)
			// plain:  s = a B ; a = A
			methods := fmt.Sprintf("func (p *parser) on_a(_ Token) %s { return %s }\n\nfunc (p *parser) on_s(x %s, _ Token) int {\n\tvar want %s = %s\n\tp.expect(\"parameter of on_s for term a\", any(x), any(want))\n\treturn 1\n}\n", T.expr, T.sentinel, P.expr, P.expr, T.sentinel)
			if !asg {
				methods = fmt.Sprintf("func (p *parser) on_a(_ Token) %s { return %s }\n\nfunc (p *parser) on_s(x %s, _ Token) int { return 1 }\n", T.expr, T.sentinel, P.expr)
			}
			add(fmt.Sprintf("matrix/plain/%s->%s", tk, pk), "@start s = a B\na = A\n", methods, imports, asg, 1, "lox:@start s = a B", "go:on_s(")
			if quick && !(asg && tk != pk) && (len(out)%5 != 0) {
				continue
			}
			// optional:  s = a? B   (present and absent)
			om := fmt.Sprintf("func (p *parser) on_a(_ Token) %s { return %s }\n\nfunc (p *parser) on_s(x %s, b Token) int {\n\tif b.Idx == 101 {\n\t\tvar want %s = %s\n\t\tp.expect(\"parameter of on_s for term a? (present)\", any(x), any(want))\n\t} else {\n\t\tvar zero %s\n\t\tvar want %s = zero\n\t\tp.expect(\"parameter of on_s for term a? (absent)\", any(x), any(want))\n\t}\n\treturn 1\n}\n", T.expr, T.sentinel, P.expr, P.expr, T.sentinel, T.expr, P.expr)
			if !asg {
				om = fmt.Sprintf("func (p *parser) on_a(_ Token) %s { return %s }\n\nfunc (p *parser) on_s(x %s, b Token) int { return 1 }\n", T.expr, T.sentinel, P.expr)
			}
			add(fmt.Sprintf("matrix/opt/%s->%s", tk, pk), "@start s = a? B\na = A\n", om, imports, asg, 1, "lox:@start s = a? B", "go:on_s(")
		}
	}
	// list terms: the term's type is []T; parameters: identical, named slice, any, wrong element
	for _, tk := range tkeys {
		T := c06Type(tk)
		for _, shape := range []struct{ name, rule string }{{"star", "@start s = a* B\na = A\n"}, {"plus", "@start s = a+ B\na = A\n"}, {"list", "@start s = @list(a, COMMA) B\na = A\n"}, {"listopt", "@start s = @list(a, COMMA)? B\na = A\n"}} {
			for _, pv := range []struct {
				name, decl, expr string
				ok               bool
			}{
				{"identical", "", "[]" + T.expr, true},
				{"named", "type LT []" + T.expr + "\n\n", "LT", true},
				{"any", "", "any", true},
				{"wrong", "", "[]*" + T.expr, false},
			} {
				if quick && shape.name != "star" && pv.name != "named" {
					continue
				}
				methods := pv.decl + fmt.Sprintf("func (p *parser) on_a(_ Token) %s { return %s }\n\n", T.expr, T.sentinel)
				if pv.ok {
					methods += fmt.Sprintf("func (p *parser) on_s(xs %s, b Token) int {\n\tn := (b.Idx - 100 + %d) / %d\n\tvar elems []%s\n\tfor i := 0; i < n; i++ {\n\t\telems = append(elems, %s)\n\t}\n\tvar want %s = elems\n\tp.expect(\"parameter of on_s for the list term\", any(xs), any(want))\n\treturn 1\n}\n",
						pv.expr, map[string]int{"star": 0, "plus": 0, "list": 1, "listopt": 1}[shape.name], map[string]int{"star": 1, "plus": 1, "list": 2, "listopt": 2}[shape.name], T.expr, T.sentinel, pv.expr)
				} else {
					methods += fmt.Sprintf("func (p *parser) on_s(xs %s, b Token) int { return 1 }\n", pv.expr)
				}
				add(fmt.Sprintf("list/%s/%s/%s", shape.name, tk, pv.name), shape.rule, methods, T.imports, pv.ok, 1, "lox:@start s =", "go:on_s(")
			}
		}
	}
	// token and @error terms
	add("token/exact", "@start s = A\n", "func (p *parser) on_s(x Token) int {\n\tp.expect(\"token parameter\", any(x), any(Token{Type: A, Idx: 100}))\n\treturn 1\n}\n", nil, true, 1)
	add("token/any", "@start s = A\n", "func (p *parser) on_s(x any) int {\n\tp.expect(\"token parameter\", x, any(Token{Type: A, Idx: 100}))\n\treturn 1\n}\n", nil, true, 1)
	add("token/wrong", "@start s = A\n", "func (p *parser) on_s(x int) int { return 1 }\n", nil, false, 0, "lox:@start s = A", "go:on_s(")
	add("tokenlist/named", "@start s = A* B\n", "type TL []Token\n\nfunc (p *parser) on_s(xs TL, _ Token) int {\n\tp.expect(\"token list parameter\", any(xs), any(TL{{Type: A, Idx: 100}}))\n\treturn 1\n}\n", nil, true, 1)
	add("error/exact", "@start s = A B | @error\n", "func (p *parser) on_s(_ Token, _ Token) int { return 1 }\n\nfunc (p *parser) on_s__err(e Error) int {\n\tp.st.checks++\n\tif e.Token.Idx != 101 {\n\t\tp.st.fails = append(p.st.fails, fmt.Sprint(\"Error parameter carries token \", e.Token.Idx))\n\t}\n\treturn 2\n}\n", nil, true, 0)
	add("error/any", "@start s = A B | @error\n", "func (p *parser) on_s(_ Token, _ Token) int { return 1 }\n\nfunc (p *parser) on_s__err(e any) int { return 2 }\n", nil, true, 0)
	add("error/token-param", "@start s = A B | @error\n", "func (p *parser) on_s(_ Token, _ Token) int { return 1 }\n\nfunc (p *parser) on_s__err(e Token) int { return 2 }\n", nil, false, 0, "lox:| @error", "go:on_s__err(")
	// an @error production with the same shape as a token production of the same rule:
	// each needs its own method (Error is not assignable to Token nor Token to Error)
	errOK := "func (p *parser) on_s(x Token, _ Token) int {\n\tp.expect(\"token parameter\", any(x), any(Token{Type: A, Idx: 100}))\n\treturn 1\n}\n\nfunc (p *parser) on_s__err(e Error, _ Token) int { return 2 }\n"
	add("error/same-shape/token-first", "@start s = A B | @error B\n", errOK, nil, true, 1)
	add("error/same-shape/error-first", "@start s = @error B | A B\n", errOK, nil, true, 1)
	add("error/same-shape/no-error-method", "@start s = A B | @error B\n", "func (p *parser) on_s(_ Token, _ Token) int { return 1 }\n", nil, false, 0, "lox:| @error B")
	add("error/same-shape/no-error-method-error-first", "@start s = @error B | A B\n", "func (p *parser) on_s(_ Token, _ Token) int { return 1 }\n", nil, false, 0, "lox:@start s = @error B")
	add("error/same-shape/no-token-method", "@start s = A B | @error B\n", "func (p *parser) on_s__err(e Error, _ Token) int { return 2 }\n", nil, false, 0, "lox:@start s = A B")
	// one method serving two productions whose terms have different types, both
	// assignable to a parameter that is not an interface (named slice / unnamed slice)
	add("layout/shared-method-named-slice", "@start s = a* B | c C\na = A\nc = C C\n",
		"type LS []S\n\nfunc (p *parser) on_a(_ Token) S { return S{V: 7} }\n\nfunc (p *parser) on_c(_ Token, _ Token) LS { return LS{{V: 1}, {V: 2}} }\n\n"+
			"func (p *parser) on_s(xs LS, t Token) int {\n\tif t.Type == B {\n\t\tvar want LS\n\t\tfor i := 100; i < t.Idx; i++ {\n\t\t\twant = append(want, S{V: 7})\n\t\t}\n\t\tp.expect(\"parameter of on_s for a*\", any(xs), any(want))\n\t} else {\n\t\tp.expect(\"parameter of on_s for c\", any(xs), any(LS{{V: 1}, {V: 2}}))\n\t}\n\treturn 1\n}\n", nil, true, 1)
	add("layout/shared-method-map-types", "@start s = a B | c B\na = A\nc = C\n",
		"func (p *parser) on_a(_ Token) NM { return NM{\"k\": 1} }\n\nfunc (p *parser) on_c(_ Token) map[string]int { return map[string]int{\"q\": 2} }\n\n"+
			"func (p *parser) on_s(m NM, t Token) int {\n\tif t.Idx == 101 && len(m) == 1 {\n\t\tp.st.checks++\n\t} else {\n\t\tp.st.checks++\n\t\tp.st.fails = append(p.st.fails, fmt.Sprint(\"on_s received \", m))\n\t}\n\treturn 1\n}\n", nil, true, 1)
	// x*! : elements are filtered through their Discard() method
	dS := "type D struct{ V int }\n\nfunc (d D) Discard() bool { return d.V%2 == 1 }\n\n"
	add("discard/value-receiver", "@start s = a*! B\na = A\n", dS+"func (p *parser) on_a(t Token) D { return D{V: t.Idx} }\n\nfunc (p *parser) on_s(xs []D, b Token) int {\n\tvar want []D\n\tfor i := 100; i < b.Idx; i++ {\n\t\tif i%2 == 0 {\n\t\t\twant = append(want, D{V: i})\n\t\t}\n\t}\n\tp.expect(\"parameter of on_s for a*!\", any(xs), any(want))\n\treturn 1\n}\n", nil, true, 1)
	dP := "type D struct{ V int }\n\nfunc (d *D) Discard() bool { return d.V%2 == 1 }\n\n"
	add("discard/pointer-elements", "@start s = a*! B\na = A\n", dP+"func (p *parser) on_a(t Token) *D { return &D{V: t.Idx} }\n\nfunc (p *parser) on_s(xs []*D, b Token) int {\n\tn := 0\n\tfor i := 100; i < b.Idx; i++ {\n\t\tif i%2 == 0 {\n\t\t\tn++\n\t\t}\n\t}\n\tp.expect(\"number of elements delivered for a*!\", any(len(xs)), any(n))\n\treturn 1\n}\n", nil, true, 1)
	// elements delivered by value, Discard() on the pointer receiver: accepted (the
	// generated code calls it on an addressable copy), so it must filter too
	add("discard/pointer-receiver-on-value", "@start s = a*! B\na = A\n", dP+"func (p *parser) on_a(t Token) D { return D{V: t.Idx} }\n\nfunc (p *parser) on_s(xs []D, b Token) int {\n\tvar want []D\n\tfor i := 100; i < b.Idx; i++ {\n\t\tif i%2 == 0 {\n\t\t\twant = append(want, D{V: i})\n\t\t}\n\t}\n\tp.expect(\"parameter of on_s for a*! (Discard on the pointer receiver, elements by value)\", any(xs), any(want))\n\treturn 1\n}\n", nil, true, 1)
	add("discard/pointer-receiver-on-value-named-slice", "@start s = a*! B\na = A\n", dP+"type DL []D\n\nfunc (p *parser) on_a(t Token) D { return D{V: t.Idx} }\n\nfunc (p *parser) on_s(xs DL, b Token) int {\n\tvar want DL\n\tfor i := 100; i < b.Idx; i++ {\n\t\tif i%2 == 0 {\n\t\t\twant = append(want, D{V: i})\n\t\t}\n\t}\n\tp.expect(\"parameter of on_s for a*!\", any(xs), any(want))\n\treturn 1\n}\n", nil, true, 1)
	// elements that are interface values holding pointers / values
	add("discard/interface-elements", "@start s = a*! B\na = A\n", dP+"type DI interface{ Discard() bool }\n\nfunc (p *parser) on_a(t Token) DI { return &D{V: t.Idx} }\n\nfunc (p *parser) on_s(xs []DI, b Token) int {\n\tn := 0\n\tfor i := 100; i < b.Idx; i++ {\n\t\tif i%2 == 0 {\n\t\t\tn++\n\t\t}\n\t}\n\tp.expect(\"number of elements delivered for a*! (interface elements)\", any(len(xs)), any(n))\n\treturn 1\n}\n", nil, true, 1)
	add("discard/no-method", "@start s = a*! B\na = A\n", "func (p *parser) on_a(t Token) S { return S{V: 7} }\n\nfunc (p *parser) on_s(xs []S, b Token) int { return 1 }\n", nil, false, 0)
	add("discard/wrong-signature", "@start s = a*! B\na = A\n", "type D struct{ V int }\n\nfunc (d D) Discard() int { return 0 }\n\nfunc (p *parser) on_a(t Token) D { return D{} }\n\nfunc (p *parser) on_s(xs []D, b Token) int { return 1 }\n", nil, false, 0)
	add("discard/token-without-method", "@start s = A*! B\n", "func (p *parser) on_s(xs []Token, b Token) int { return 1 }\n", nil, false, 0)
	add("discard/token-with-method", "@start s = A*! B\n", "func (t Token) Discard() bool { return t.Idx%2 == 1 }\n\nfunc (p *parser) on_s(xs []Token, b Token) int {\n\tn := 0\n\tfor i := 100; i < b.Idx; i++ {\n\t\tif i%2 == 0 {\n\t\t\tn++\n\t\t}\n\t}\n\tp.expect(\"number of tokens delivered for A*!\", any(len(xs)), any(n))\n\treturn 1\n}\n", nil, true, 1)
	// a parser package that has the NAME of a package it imports (under an alias):
	// the imported type must stay qualified in the generated code
	{
		user := c06UserHead("PKG", nil)
		user = strings.Replace(user, "\t\"strings\"\n", "\t\"strings\"\n\tstdtime \"time\"\n", 1)
		methods := "func (p *parser) on_a(_ Token) stdtime.Duration { return stdtime.Duration(14) }\n\nfunc (p *parser) on_s(x stdtime.Duration, _ Token) int {\n\tp.expect(\"parameter of on_s for term a\", any(x), any(stdtime.Duration(14)))\n\treturn 1\n}\n"
		cs := &c06Case{Pkg: "time", Name: "layout/package-named-like-an-imported-package", Lox: c06LoxHead + "@start s = a B\na = A\n", User: user + "\n" + methods, ExpectOK: true, Checks: 1}
		out = append(out, cs)
		user2 := c06UserHead("PKG", nil)
		user2 = strings.Replace(user2, "\t\"strings\"\n", "\t\"strings\"\n\tstdbytes \"bytes\"\n", 1)
		methods2 := "type Buffer struct{ local int }\n\nvar theBuf = stdbytes.NewBufferString(\"q\")\n\nfunc (p *parser) on_a(_ Token) *stdbytes.Buffer { return theBuf }\n\nfunc (p *parser) on_s(x fmt.Stringer, _ Token) int {\n\tp.expect(\"parameter of on_s for term a\", any(x), any(fmt.Stringer(theBuf)))\n\treturn 1\n}\n"
		out = append(out, &c06Case{Pkg: "bytes", Name: "layout/package-named-like-an-imported-package-with-local-twin", Lox: c06LoxHead + "@start s = a B\na = A\n", User: user2 + "\n" + methods2, ExpectOK: true, Checks: 1})
	}
	// types from two imported packages, first named in an order that is not the
	// order of their import paths (and the other way round)
	for i, ord := range [][2]string{{"time.Duration", "*bytes.Buffer"}, {"*bytes.Buffer", "time.Duration"}} {
		val := map[string]string{"time.Duration": "time.Duration(14)", "*bytes.Buffer": "theBuf2"}
		methods := "var theBuf2 = bytes.NewBufferString(\"q\")\n\n" +
			fmt.Sprintf("func (p *parser) on_a(_ Token) %s { return %s }\n\nfunc (p *parser) on_c(_ Token) %s { return %s }\n\n", ord[0], val[ord[0]], ord[1], val[ord[1]]) +
			fmt.Sprintf("func (p *parser) on_s(x %s, y %s, _ Token) int {\n\tp.expect(\"first parameter of on_s\", any(x), any(%s))\n\tp.expect(\"second parameter of on_s\", any(y), any(%s))\n\treturn 1\n}\n", ord[0], ord[1], val[ord[0]], val[ord[1]])
		add(fmt.Sprintf("layout/two-imported-packages-%d", i), "@start s = a c B\na = A\nc = C\n", methods, []string{"time", "bytes"}, true, 2)
		// the same through `any` parameters: a wrong package would compile and deliver a zero value
		methodsAny := "var theBuf2 = bytes.NewBufferString(\"q\")\n\n" +
			fmt.Sprintf("func (p *parser) on_a(_ Token) %s { return %s }\n\nfunc (p *parser) on_c(_ Token) %s { return %s }\n\n", ord[0], val[ord[0]], ord[1], val[ord[1]]) +
			fmt.Sprintf("func (p *parser) on_s(x any, y any, _ Token) int {\n\tp.expect(\"first parameter of on_s\", x, any(%s))\n\tp.expect(\"second parameter of on_s\", y, any(%s))\n\treturn 1\n}\n", val[ord[0]], val[ord[1]])
		add(fmt.Sprintf("layout/two-imported-packages-any-%d", i), "@start s = a c B\na = A\nc = C\n", methodsAny, []string{"time", "bytes"}, true, 2)
	}
	// Axis 3: layouts.
	base := "func (p *parser) on_a(_ Token) S { return S{V: 7} }\n\n"
	okS := "func (p *parser) on_s(x S, _ Token) int {\n\tp.expect(\"parameter of on_s\", any(x), any(S{V: 7}))\n\tvar zero int\n\treturn zero\n}\n"
	add("layout/exact", "@start s = a B\na = A\n", base+okS, nil, true, 1)
	add("layout/shared-method", "@start s = a B\na = A | C\n", base+okS, nil, true, 1)
	add("layout/shared-method-interface", "@start s = a B | c B\na = A\nc = C\n", base+"func (p *parser) on_c(_ Token) *S { return thePtr }\n\nfunc (p *parser) on_s(x I, _ Token) int { return 1 }\n", nil, true, 0)
	add("layout/two-methods-by-suffix", "@start s = a B | B\na = A\n", base+okS+"\nfunc (p *parser) on_s__b(_ Token) int { return 2 }\n", nil, true, 1)
	// everything after the FIRST double underscore of a method name is a free suffix
	add("layout/suffix-with-double-underscore", "@start s = a B | B\na = A\n", base+okS+"\nfunc (p *parser) on_s__b__extra(_ Token) int { return 2 }\n", nil, true, 1)
	add("layout/suffix-with-two-double-underscores", "@start s = a B | B\na = A\n", base+strings.Replace(okS, "on_s(", "on_s__x__y__z(", 1)+"\nfunc (p *parser) on_s__b__(_ Token) int { return 2 }\n", nil, true, 1)
	add("layout/suffix-triple-underscore", "@start s = a B | B\na = A\n", base+okS+"\nfunc (p *parser) on_s___1(_ Token) int { return 2 }\n", nil, true, 1)
	add("layout/rule-with-underscore-and-suffix", "@start s = a_x B | B\na_x = A\n", strings.Replace(base, "on_a(", "on_a_x__first__alt(", 1)+okS+"\nfunc (p *parser) on_s__b(_ Token) int { return 2 }\n", nil, true, 1)
	add("layout/production-without-method", "@start s = a B | B\na = A\n", base+okS, nil, false, 0, "lox:| B")
	add("layout/rule-without-methods", "@start s = a B\na = A\n", okS, nil, false, 0, "lox:a = A")
	add("layout/two-methods-match", "@start s = a B\na = A\n", base+okS+"\nfunc (p *parser) on_s__again(x any, _ Token) int { return 2 }\n", nil, false, 0, "lox:@start s = a B", "go:on_s(", "go:on_s__again(")
	add("layout/orphan-method", "@start s = a B\na = A\n", base+okS+"\nfunc (p *parser) on_s__orphan(x S, _ Token, _ Token) int { return 2 }\n", nil, false, 0, "go:on_s__orphan(")
	add("layout/orphan-method-same-arity", "@start s = a B\na = A\n", base+okS+"\nfunc (p *parser) on_s__orphan(x int, _ Token) int { return 2 }\n", nil, false, 0, "go:on_s__orphan(")
	add("layout/unequal-returns", "@start s = a B | B\na = A\n", base+okS+"\nfunc (p *parser) on_s__b(_ Token) string { return \"\" }\n", nil, false, 0, "go:on_s(", "go:on_s__b(")
	add("layout/unequal-returns-assignable-any-first", "@start s = a B | B\na = A\n", base+strings.Replace(strings.Replace(okS, ") int {", ") any {", 1), "var zero int", "var zero any", 1)+"\nfunc (p *parser) on_s__b(_ Token) int { return 2 }\n", nil, false, 0, "go:on_s(", "go:on_s__b(")
	add("layout/unequal-returns-assignable-any-second", "@start s = a B | B\na = A\n", base+okS+"\nfunc (p *parser) on_s__b(_ Token) any { return 2 }\n", nil, false, 0, "go:on_s(", "go:on_s__b(")
	add("layout/unequal-returns-named-slice", "@start s = a B | B\na = A\n", base+strings.Replace(strings.Replace(okS, ") int {", ") []int {", 1), "var zero int", "var zero []int", 1)+"\nfunc (p *parser) on_s__b(_ Token) NS { return nil }\n", nil, false, 0, "go:on_s(", "go:on_s__b(")
	add("layout/unknown-rule", "@start s = a B\na = A\n", base+okS+"\nfunc (p *parser) on_zzz(_ Token) int { return 2 }\n", nil, false, 0, "go:on_zzz(")
	add("layout/wrong-arity", "@start s = a B\na = A\n", base+"func (p *parser) on_s(x S) int { return 1 }\n", nil, false, 0, "lox:@start s = a B", "go:on_s(")
	add("layout/no-result", "@start s = a B\na = A\n", base+"func (p *parser) on_s(x S, _ Token) {}\n", nil, false, 0, "go:on_s(")
	add("layout/two-results", "@start s = a B\na = A\n", base+"func (p *parser) on_s(x S, _ Token) (int, error) { return 1, nil }\n", nil, false, 0, "go:on_s(")
	add("layout/pointer-vs-value-receiver", "@start s = a B\na = A\n", base+strings.Replace(okS, "(p *parser) on_s", "(p parser) on_s", 1), nil, true, 1)
	out = append(out, c06SugarPairs()...)
	return out
}

// c06SugarPairs: two sugared terms over ONE element (the rule a, or the token
// A), every ordered pair of {x?, x*, x+, @list(x,COMMA), @list(x,COMMA)?},
// written in two rules (declared in either order) or in one production. The
// rules lox generates for the sugar are shared or derived from one another
// (x* from x+, @list(..)? from @list(..)), so which one is met first matters to
// the generator; to the user it must not: every such package binds, compiles,
// and every element reaches its parameter (the elements carry the position of
// their token, so each action checks that it got exactly the elements between
// its keyword and the next one).
func c06SugarPairs() []*c06Case {
	type sugar struct {
		name, term string // term with X for the element
		list, sep  bool
		min        int
	}
	sugars := []sugar{
		{"opt", "X?", false, false, 0},
		{"star", "X*", true, false, 0},
		{"plus", "X+", true, false, 1},
		{"list", "@list(X, COMMA)", true, true, 1},
		{"listopt", "@list(X, COMMA)?", true, true, 0},
	}
	var out []*c06Case
	for _, el := range []struct{ name, sym, typ, field, decl string }{
		{"rule", "a", "S", "V", "a = A\n"},
		{"token", "A", "Token", "Idx", ""},
	} {
		// Go statements that check parameter `x` of the given sugar against the
		// keyword token `k` and leave the position after the last element in `next`
		body := func(sg sugar, x, k string) string {
			if !sg.list {
				return fmt.Sprintf("\tnext := %s.Idx + 1\n\tvar zero %s\n\tif %s != zero {\n\t\tp.expect(\"element of %s\", any(%s.%s), any(next))\n\t\tnext++\n\t} else {\n\t\tp.st.checks++\n\t}\n", k, el.typ, x, sg.name, x, el.field)
			}
			step := 1
			if sg.sep {
				step = 2
			}
			return fmt.Sprintf("\tnext := %s.Idx + 1\n\tp.st.checks++\n\tfor i, e := range %s {\n\t\tp.expect(\"element of %s\", any(e.%s), any(%s.Idx+1+%d*i))\n\t\tnext = e.%s + 1\n\t}\n", k, x, sg.name, el.field, k, step, el.field)
		}
		typeOf := func(sg sugar) string {
			if sg.list {
				return "[]" + el.typ
			}
			return el.typ
		}
		stretch := func(sg sugar, n int) []int { // n elements
			var o []int
			for i := 0; i < n; i++ {
				if sg.sep && i > 0 {
					o = append(o, 5)
				}
				o = append(o, 2)
			}
			return o
		}
		for _, s1 := range sugars {
			for _, s2 := range sugars {
				var inputs [][]int
				for n1 := s1.min; n1 <= 2; n1++ {
					for n2 := s2.min; n2 <= 2; n2++ {
						if (!s1.list && n1 > 1) || (!s2.list && n2 > 1) {
							continue
						}
						in := append([]int{3}, stretch(s1, n1)...)
						in = append(append(in, 4), stretch(s2, n2)...)
						inputs = append(inputs, in)
					}
				}
				t1, t2 := strings.ReplaceAll(s1.term, "X", el.sym), strings.ReplaceAll(s2.term, "X", el.sym)
				onA := ""
				if el.name == "rule" {
					onA = "func (p *parser) on_a(t Token) S { return S{V: t.Idx} }\n\n"
				}
				span := "type span struct{ First, Next int }\n\n"
				onU := fmt.Sprintf("func (p *parser) on_u(k Token, x %s) span {\n%s\treturn span{k.Idx, next}\n}\n\n", typeOf(s1), body(s1, "x", "k"))
				onV := fmt.Sprintf("func (p *parser) on_v(k Token, x %s) span {\n%s\treturn span{k.Idx, next}\n}\n\n", typeOf(s2), body(s2, "x", "k"))
				onS := "func (p *parser) on_s(u span, v span) int {\n\tp.expect(\"where the elements delivered for the first term end\", any(u.Next), any(v.First))\n\tp.expect(\"where the elements delivered for the second term end\", any(v.Next), any(100+p.st.n))\n\treturn 1\n}\n"
				for _, lay := range []struct{ name, parser string }{
					{"two-rules", "@start s = u v\nu = B " + t1 + "\nv = C " + t2 + "\n" + el.decl},
					{"two-rules-second-declared-first", "@start s = u v\nv = C " + t2 + "\nu = B " + t1 + "\n" + el.decl},
				} {
					out = append(out, &c06Case{Name: fmt.Sprintf("sugar-pair/%s/%s/%s+%s", el.name, lay.name, s1.name, s2.name), Lox: c06LoxHead + lay.parser,
						User: c06UserHead("PKG", nil) + "\n" + span + onA + onU + onV + onS, ExpectOK: true, Checks: 2, Inputs: inputs})
				}
				one := fmt.Sprintf("func (p *parser) on_s(k Token, x %s, k2 Token, y %s) int {\n\tfirst := func() int {\n%s\t\treturn next\n\t}()\n\tp.expect(\"where the elements delivered for the first term end\", any(first), any(k2.Idx))\n\tsecond := func() int {\n%s\t\treturn next\n\t}()\n\tp.expect(\"where the elements delivered for the second term end\", any(second), any(100+p.st.n))\n\treturn 1\n}\n",
					typeOf(s1), typeOf(s2), strings.ReplaceAll(body(s1, "x", "k"), "\n\t", "\n\t\t"), strings.ReplaceAll(body(s2, "y", "k2"), "\n\t", "\n\t\t"))
				out = append(out, &c06Case{Name: fmt.Sprintf("sugar-pair/%s/one-production/%s+%s", el.name, s1.name, s2.name), Lox: c06LoxHead + "@start s = B " + t1 + " C " + t2 + "\n" + el.decl,
					User: c06UserHead("PKG", nil) + "\n" + onA + one, ExpectOK: true, Checks: 2, Inputs: inputs})
			}
		}
	}
	return out
}

// parenType wraps function types so that T(x) conversions parse.
func parenType(t string) string {
	if strings.HasPrefix(t, "func") || strings.HasPrefix(t, "<-") || strings.HasPrefix(t, "*") || strings.HasPrefix(t, "chan") {
		return "(" + t + ")"
	}
	return t
}

// crossCheck asks go/types whether T is assignable to P in the user package.
var (
	c06xOnce sync.Once
	c06xPkg  *gotypes.Package
)

func c06GoTypesAssignable(t, p string) (bool, error) {
	var err error
	c06xOnce.Do(func() {
		src := "package x\n\nimport (\n\t\"fmt\"\n\t\"reflect\"\n\t\"strings\"\n\t\"time\"\n)\n\nvar _ = fmt.Sprint\nvar _ time.Duration\n" + c06Decls
		for i, ty := range c06Types {
			src += fmt.Sprintf("var V%d %s\n", i, ty.expr)
		}
		fset := gotoken.NewFileSet()
		f, perr := goparser.ParseFile(fset, "x.go", src, 0)
		if perr != nil {
			err = perr
			return
		}
		cfg := &gotypes.Config{Importer: importerFor()}
		c06xPkg, err = cfg.Check("x", fset, []*goast.File{f}, nil)
	})
	if err != nil || c06xPkg == nil {
		return false, fmt.Errorf("cross-check package: %v", err)
	}
	var T, P gotypes.Type
	for i, ty := range c06Types {
		o := c06xPkg.Scope().Lookup(fmt.Sprintf("V%d", i))
		if ty.key == t {
			T = o.Type()
		}
		if ty.key == p {
			P = o.Type()
		}
	}
	return gotypes.AssignableTo(T, P), nil
}

var c06HexRe = regexp.MustCompile(`0x[0-9a-f]+`)

var c06DiagRe = regexp.MustCompile(`(?m)^([A-Za-z_.]+):(\d+):(\d+): `)

type c06Out struct {
	Pkg    string   `json:"pkg"`
	OK     bool     `json:"ok"`
	Checks int      `json:"checks"`
	Fails  []string `json:"fails"`
	Panic  string   `json:"panic"`
}

func c06Batch(tag string, cases []*c06Case, st *mc.Stats, mu *sync.Mutex) []mc.Violation {
	ws := pipe.NewWorkspace("c06" + tag)
	defer ws.Close()
	var out []mc.Violation
	viol := func(cs *c06Case, kind, detail string) {
		detail = c06HexRe.ReplaceAllString(detail, "0x?")
		out = append(out, mc.Violation{Property: "C06", Check: "C06", Kind: kind, Size: len(cs.User), Case: mustJSON(cs),
			Detail: fmt.Sprintf("case %s: %s\n%s\n---- user.go ----\n%s", cs.Name, detail, strings.TrimPrefix(cs.Lox, c06LoxHead), tailOf(cs.User))})
	}
	type job struct {
		cs  *c06Case
		pkg string
	}
	var jobs []job
	var pkgs []st3.Pkg
	for i, cs := range cases {
		pkg := fmt.Sprintf("p%d", i)
		if cs.Pkg != "" {
			pkg = cs.Pkg
		}
		user := strings.Replace(cs.User, "package PKG\n", "package "+pkg+"\n", 1)
		res := ws.RunFast(&pipe.Spec{Lox: map[string]string{"g.lox": cs.Lox}, Go: map[string]string{"user.go": user}}, importerFor())
		mu.Lock()
		st.Evaluations++
		st.Nontrivial++
		mu.Unlock()
		if res.Panic != "" {
			out = append(out, mc.Violation{Property: "C12", Check: "C06", Kind: "generator-panic", Size: len(cs.User), Case: mustJSON(cs), Detail: "case " + cs.Name + ": generator panicked: " + firstLine(res.Panic)})
			continue
		}
		if res.OK != cs.ExpectOK {
			if cs.ExpectOK {
				viol(cs, "valid-binding-rejected", "lox refused a package in which every production has exactly one matching method: "+strings.TrimSpace(res.Diag))
			} else {
				viol(cs, "invalid-binding-accepted", "lox accepted a package that does not bind every production to exactly one method")
			}
			continue
		}
		if !res.OK {
			if strings.TrimSpace(res.Diag) == "" {
				viol(cs, "no-diagnostic", "refused without a diagnostic")
				continue
			}
			if len(cs.Blame) > 0 {
				found := false
				for _, m := range c06DiagRe.FindAllStringSubmatch(res.Diag, -1) {
					line, _ := strconv.Atoi(m[2])
					for _, b := range cs.Blame {
						if (strings.HasSuffix(m[1], ".lox") && b == fmt.Sprintf("lox:%d", line)) || (strings.HasSuffix(m[1], ".go") && b == fmt.Sprintf("go:%d", line)) {
							found = true
						}
					}
				}
				if !found {
					viol(cs, "diagnostic-position", fmt.Sprintf("no diagnostic names the production or the method (acceptable anchors %v): %s", cs.Blame, strings.TrimSpace(res.Diag)))
				}
			}
			continue
		}
		if cs.VerdictOnly {
			continue
		}
		jobs = append(jobs, job{cs, pkg})
		pkgs = append(pkgs, st3.Pkg{Name: pkg, Files: map[string]string{"user.go": user, "base.gen.go": res.Base, "lexer.gen.go": res.Lexer, "parser.gen.go": res.Parser}})
	}
	if len(jobs) == 0 {
		return out
	}
	// inputs: token constants A=2 B=3 C=4 COMMA=5
	inputsFor := func(cs *c06Case) [][]int {
		if len(cs.Inputs) > 0 {
			return cs.Inputs
		}
		switch {
		case strings.Contains(cs.Lox, "a? B"):
			return [][]int{{2, 3}, {3}}
		case strings.Contains(cs.Lox, "@list(a, COMMA)? B"):
			return [][]int{{3}, {2, 3}, {2, 5, 2, 3}}
		case strings.Contains(cs.Lox, "@list(a, COMMA) B"):
			return [][]int{{2, 3}, {2, 5, 2, 3}}
		case strings.Contains(cs.Lox, "a*! B"):
			return [][]int{{3}, {2, 3}, {2, 2, 3}, {2, 2, 2, 3}}
		case strings.Contains(cs.Lox, "A*! B"):
			return [][]int{{3}, {2, 3}, {2, 2, 2, 3}}
		case strings.Contains(cs.Lox, "@start s = a c B"):
			return [][]int{{2, 4, 3}}
		case strings.Contains(cs.Lox, "a* B | c C"):
			return [][]int{{3}, {2, 3}, {2, 2, 3}, {4, 4, 4}}
		case strings.Contains(cs.Lox, "@error B"):
			return [][]int{{2, 3}, {4, 3}}
		case strings.Contains(cs.Lox, "a* B"):
			return [][]int{{3}, {2, 3}, {2, 2, 3}}
		case strings.Contains(cs.Lox, "a+ B"):
			return [][]int{{2, 3}, {2, 2, 3}}
		case strings.Contains(cs.Lox, "A* B"):
			return [][]int{{2, 3}}
		case strings.Contains(cs.Lox, "@start s = A B | @error"):
			return [][]int{{2, 3}, {2, 2}}
		case strings.Contains(cs.Lox, "@start s = A\n"):
			return [][]int{{2}}
		case strings.Contains(cs.Lox, "a = A | C"):
			return [][]int{{2, 3}, {4, 3}}
		case strings.Contains(cs.Lox, "c B"):
			return [][]int{{2, 3}, {4, 3}}
		case strings.Contains(cs.Lox, "a B | B"):
			return [][]int{{2, 3}, {3}}
		}
		return [][]int{{2, 3}}
	}
	var mb strings.Builder
	mb.WriteString("package main\n\nimport (\n\t\"encoding/json\"\n\t\"os\"\n")
	for _, j := range jobs {
		fmt.Fprintf(&mb, "\t%q\n", "example.com/st3/"+j.pkg)
	}
	mb.WriteString(")\n\ntype out struct {\n\tPkg string `json:\"pkg\"`\n\tOK bool `json:\"ok\"`\n\tChecks int `json:\"checks\"`\n\tFails []string `json:\"fails\"`\n\tPanic string `json:\"panic\"`\n}\n\nfunc main() {\n\tenc := json.NewEncoder(os.Stdout)\n")
	for _, j := range jobs {
		fmt.Fprintf(&mb, "\tfor _, in := range [][]int{")
		for _, in := range inputsFor(j.cs) {
			mb.WriteString("{")
			for _, t := range in {
				fmt.Fprintf(&mb, "%d,", t)
			}
			mb.WriteString("},")
		}
		fmt.Fprintf(&mb, "} {\n\t\tok, n, f, p := %s.Run(in)\n\t\tenc.Encode(out{%q, ok, n, f, p})\n\t}\n", j.pkg, j.pkg)
	}
	mb.WriteString("}\n")
	r := st3.Run("c06"+tag, pkgs, mb.String(), false, nil)
	if r.Stopped != "" {
		mu.Lock()
		st.Inconcl++
		st.Cap("a compiled program of a batch was stopped by the safety net (" + r.Stopped + "); the batch is not evaluated")
		mu.Unlock()
		return out
	}
	if r.BuildErr != "" {
		for _, j := range jobs {
			if strings.Contains(r.BuildErr, j.pkg+"/") || strings.Contains(r.BuildErr, "/"+j.pkg+"\n") {
				var lines []string
				for _, l := range strings.Split(r.BuildErr, "\n") {
					if strings.Contains(l, j.pkg+"/") {
						lines = append(lines, l)
					}
				}
				viol(j.cs, "does-not-compile", "lox succeeded but the generated files do not compile with the package: "+strings.Join(head(lines, 3), " | "))
			}
		}
		if len(out) == 0 {
			mu.Lock()
			st.HarnessError("stage-3 build failed: %s", firstLine(r.BuildErr))
			mu.Unlock()
		}
		return out
	}
	byPkg := map[string]*c06Case{}
	for _, j := range jobs {
		byPkg[j.pkg] = j.cs
	}
	ranChecks := map[string]int{}
	dec := json.NewDecoder(strings.NewReader(string(r.Stdout)))
	for dec.More() {
		var o c06Out
		if err := dec.Decode(&o); err != nil {
			mu.Lock()
			st.HarnessError("stage-3 output: %v", err)
			mu.Unlock()
			break
		}
		cs := byPkg[o.Pkg]
		mu.Lock()
		st.Validated++
		st.Add("value_flow_checks", int64(o.Checks))
		mu.Unlock()
		switch {
		case o.Panic != "":
			viol(cs, "runtime-panic", "the compiled parser panicked: "+o.Panic)
		case len(o.Fails) > 0:
			viol(cs, "value-substituted", "an action parameter did not hold the value produced for its term: "+strings.Join(o.Fails, "; "))
		case !o.OK && !strings.Contains(cs.Lox, "@error"):
			viol(cs, "parse-failed", "parse() returned false on a sentence")
		}
		ranChecks[o.Pkg] += o.Checks
	}
	for _, j := range jobs {
		if j.cs.Checks > 0 && ranChecks[j.pkg] == 0 {
			viol(j.cs, "action-not-run", "the action holding the value check never ran on any input")
		}
	}
	if r.RunErr != "" {
		mu.Lock()
		st.HarnessError("stage-3 program: %s %s", r.RunErr, firstLine(r.Stderr))
		mu.Unlock()
	}
	mu.Lock()
	st.Add("packages_compiled", int64(len(jobs)))
	mu.Unlock()
	return out
}

func tailOf(user string) string {
	if i := strings.Index(user, "func (p *parser) on_"); i >= 0 {
		j := strings.LastIndex(user[:i], "\n\n")
		if j < 0 {
			j = i
		}
		return strings.TrimSpace(user[j:])
	}
	return user
}

// c06Matrix: the binding space of one rule. Productions of s are a non-empty
// subset (at most 3) of {A, c, A B, c B, B c} (c = C has result type S), its
// methods a non-empty subset (at most 3) of ten signatures over {Token, S, any,
// int}; all return int. The expected verdict is computed from the statement:
// every production has exactly one method of its length whose parameters accept
// its terms, and every method serves at least one production. A refusal must
// name an offending production or method.
func c06Matrix() []*c06Case {
	type prod struct {
		text  string
		terms []string // "Token" / "S"
	}
	prods := []prod{{"A", []string{"Token"}}, {"c", []string{"S"}}, {"A B", []string{"Token", "Token"}}, {"c B", []string{"S", "Token"}}, {"B c", []string{"Token", "S"}}}
	meths := [][]string{{"Token"}, {"S"}, {"any"}, {"Token", "Token"}, {"S", "Token"}, {"any", "Token"}, {"any", "any"}, {"Token", "S"}, {"int"}, {"Token", "int"}}
	accepts := func(param, term string) bool { return param == term || param == "any" }
	subsets := func(n, max int) [][]int {
		var out [][]int
		for m := 1; m < 1<<n; m++ {
			var s []int
			for i := 0; i < n; i++ {
				if m&(1<<i) != 0 {
					s = append(s, i)
				}
			}
			if len(s) <= max {
				out = append(out, s)
			}
		}
		return out
	}
	var out []*c06Case
	for _, ps := range subsets(len(prods), 3) {
		for _, ms := range subsets(len(meths), 3) {
			var lox strings.Builder
			lox.WriteString(c06LoxHead + "@start s = ")
			for i, pi := range ps {
				if i > 0 {
					lox.WriteString("\n  | ")
				}
				lox.WriteString(prods[pi].text)
			}
			lox.WriteString("\nc = C\n")
			var user strings.Builder
			user.WriteString("package PKG\n\ntype Token struct{ Type, Idx int }\n\ntype S struct{ V int }\n\ntype parser struct {\n\tlox\n}\n\nfunc (p *parser) on_c(_ Token) S { return S{} }\n")
			for _, mi := range ms {
				fmt.Fprintf(&user, "func (p *parser) on_s__m%d(", mi)
				for k, t := range meths[mi] {
					if k > 0 {
						user.WriteString(", ")
					}
					fmt.Fprintf(&user, "x%d %s", k, t)
				}
				user.WriteString(") int { return 0 }\n")
			}
			cs := &c06Case{Name: fmt.Sprintf("matrix/prods%v-methods%v", ps, ms), Lox: lox.String(), User: user.String(), ExpectOK: true, VerdictOnly: true}
			used := map[int]bool{}
			for _, pi := range ps {
				var match []int
				for _, mi := range ms {
					if len(meths[mi]) != len(prods[pi].terms) {
						continue
					}
					ok := true
					for k := range meths[mi] {
						ok = ok && accepts(meths[mi][k], prods[pi].terms[k])
					}
					if ok {
						match = append(match, mi)
					}
				}
				if len(match) != 1 {
					cs.ExpectOK = false
					needle := "@start s = " + prods[pi].text + "\n"
					if pi != ps[0] {
						needle = "  | " + prods[pi].text + "\n"
					}
					cs.Blame = append(cs.Blame, fmt.Sprintf("lox:%d", lineOf(cs.Lox, needle)))
					for _, mi := range match {
						cs.Blame = append(cs.Blame, fmt.Sprintf("go:%d", lineOf(cs.User, fmt.Sprintf("on_s__m%d(", mi))))
					}
				}
				for _, mi := range match {
					used[mi] = true
				}
			}
			for _, mi := range ms {
				if !used[mi] {
					cs.ExpectOK = false
					cs.Blame = append(cs.Blame, fmt.Sprintf("go:%d", lineOf(cs.User, fmt.Sprintf("on_s__m%d(", mi))))
				}
			}
			out = append(out, cs)
		}
	}
	return out
}

func c06Worker(c *mc.Ctx) {
	cases := c06Cases(c.Quick())
	matrix := c06Matrix()
	nok := 0
	for _, cs := range matrix {
		if cs.ExpectOK {
			nok++
		}
	}
	c.Stats.Add("binding_matrix_cases", int64(len(matrix)))
	c.Stats.Add("binding_matrix_cases_expected_ok", int64(nok))
	cases = append(cases, matrix...)
	// cross-check the hand-written assignability table against go/types
	for _, t := range c06Types {
		if t.sentinel == "" {
			continue
		}
		for _, p := range c06Types {
			got, err := c06GoTypesAssignable(t.key, p.key)
			if err != nil {
				c.Stats.HarnessError("%v", err)
				return
			}
			if got != c06Assignable(t.key, p.key) {
				c.Stats.HarnessError("assignability table says %s -> %s is %v, go/types says %v", t.key, p.key, c06Assignable(t.key, p.key), got)
				return
			}
		}
	}
	for i, cs := range cases {
		if i%97 == 13 {
			c.Stats.Sample(map[string]any{"case": cs.Name, "expect_ok": cs.ExpectOK, "parser": strings.TrimPrefix(cs.Lox, c06LoxHead), "methods": tailOf(cs.User)})
		}
	}
	const batch = 60
	var mu sync.Mutex
	var wg sync.WaitGroup
	sem := make(chan struct{}, 6)
	for b := 0; b*batch < len(cases); b++ {
		lo, hi := b*batch, (b+1)*batch
		if hi > len(cases) {
			hi = len(cases)
		}
		wg.Add(1)
		sem <- struct{}{}
		go func(b int, cs []*c06Case) {
			defer wg.Done()
			defer func() { <-sem }()
			vs := c06Batch(fmt.Sprint(b), cs, &c.Stats, &mu)
			mu.Lock()
			for _, v := range vs {
				c.Stats.Violate(v)
			}
			mu.Unlock()
		}(b, cases[lo:hi])
	}
	wg.Wait()
	sort.SliceStable(c.Stats.Violations, func(i, j int) bool { return c.Stats.Violations[i].Detail < c.Stats.Violations[j].Detail })
}

func c06Replay(raw json.RawMessage) *mc.Violation {
	var cs c06Case
	if err := json.Unmarshal(raw, &cs); err != nil {
		return nil
	}
	var st mc.Stats
	var mu sync.Mutex
	vs := c06Batch("r", []*c06Case{&cs}, &st, &mu)
	if len(vs) == 0 {
		return nil
	}
	return &vs[0]
}

func init() {
	mc.Register(&mc.Check{
		ID:    "C06",
		Level: "exploration",
		Rule: "bindings: (a) the full matrix result-type T x parameter-type P over {named struct, pointer, unnamed/named slice, unnamed/named map, unnamed/named func, generic instantiation, imported time.Duration and *strings.Builder, bidirectional/receive-only channel, int/named int, implemented and unimplemented interfaces, any, fmt.Stringer} on a plain rule term and on an optional term; (b) list terms (x*, x+, @list, @list?) with identical / named-slice / any / wrong parameter for every T; (c) token and @error terms; (d) the binding matrix of one rule: productions = every subset of at most 3 of {A, c, A B, c B, B c}, methods = every subset of at most 3 of ten signatures over {Token, S, any, int}, expected verdict computed from the statement (exactly one accepting method per production, no method left over), refusals must name an offending production or method (verdict only, not compiled); (e) layouts: exact, shared method, interface parameter, suffix methods, production without method, rule without methods, two matching methods, orphans, unequal returns, unknown rule, wrong arity, zero/two results; " +
			"verdict must equal the expected one (expected assignability written from the Go spec and cross-checked against go/types), every refusal must name the production or the method, every acceptance is compiled by the real toolchain together with the unmodified generated files and run: each action parameter must hold exactly the sentinel produced for its term; non-trivial = one binding case",
		Assume: []string{"expected assignability table in cmd/loxmc/c06.go (cross-checked against go/types on every run)", "fast ParseGo (go/types in process with a source importer) stands in for packages.Load; bound by the conformance runs of the real binary in C12/C13/C14"},
		Worker: c06Worker,
		Replay: c06Replay,
		Serial: true,
	})
}
