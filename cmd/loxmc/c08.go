package main

import (
	"encoding/json"
	"fmt"

	"github.com/dcaiafa/lox/verif/internal/lexref"
	"github.com/dcaiafa/lox/verif/internal/lx"
	"github.com/dcaiafa/lox/verif/internal/mc"
	"github.com/dcaiafa/lox/verif/internal/pipe"
	"github.com/dcaiafa/lox/verif/internal/px"
)

func rxHasNG(r *lexref.Rx) bool {
	if r.K == lexref.KRep && (r.Card == lexref.CStarNG || r.Card == lexref.CPlusNG) {
		return true
	}
	for _, k := range r.Kids {
		if rxHasNG(k) {
			return true
		}
	}
	return false
}

// ngStop is the C08 reference: in the current mode, a rule of the non-greedy
// shape that matches the run exactly ends the run here (shortest text that
// satisfies the whole rule = first occurrence of the terminator).
func ngStop(m *lx.RefM) bool {
	for i, r := range m.St.Mode.Rules {
		// complete, and a non-greedy repetition is still open in it
		if rxHasNG(r.Rx) && m.C.Nullable(m.St.R[i]) && m.C.NGLive(m.St.R[i]) {
			return true
		}
	}
	return false
}

func ruleIsNG(r *lexref.Rule) bool { return rxHasNG(r.Rx) }

type c08Spec struct {
	spec *lexref.Spec
	desc string
}

func c08Specs(quick bool) []c08Spec {
	cls := func(items ...lexref.ClassItem) *lexref.Rx { return lexref.Cls(&lexref.Class{Items: items}) }
	prefixes := []*lexref.Rx{nil, lexref.Lit("x"), lexref.Lit("xy"), lexref.Lit("xx")}
	bodies := []*lexref.Rx{
		lexref.Dot(),
		cls(lexref.Ch('a'), lexref.Ch('b')),
		lexref.Cls(&lexref.Class{Neg: true, Items: []lexref.ClassItem{lexref.Ch('b')}}),
		lexref.Alt(cls(lexref.Ch('a')), cls(lexref.Ch('b'))),
		cls(lexref.Range('a', 'z')),
	}
	var terms []string
	for _, n := range []int{1, 2, 3} {
		var rec func(cur string)
		rec = func(cur string) {
			if len(cur) == n {
				terms = append(terms, cur)
				return
			}
			rec(cur + "a")
			rec(cur + "b")
		}
		rec("")
	}
	terms = append(terms, "x", "xa", "ax")
	id := lexref.Rule{K: lexref.RToken, Name: "ID", Rx: lexref.Rep(cls(lexref.Range('a', 'z')), lexref.CPlus)}
	pfx := lexref.Rule{K: lexref.RToken, Name: "PX", Rx: lexref.Cat(lexref.Lit("x"), lexref.Rep(cls(lexref.Ch('a'), lexref.Ch('b')), lexref.CStar))}
	ws := lexref.Rule{K: lexref.RFrag, Rx: lexref.Rep(cls(lexref.Ch(' '), lexref.Ch('\n')), lexref.CPlus), Actions: []lexref.Action{{K: lexref.ADiscard}}}
	lit := lexref.Rule{K: lexref.RToken, Name: "XA", Rx: lexref.Lit("xa")}
	companions := [][]lexref.Rule{nil, {id}, {pfx}, {ws}, {lit}, {id, ws}, {pfx, id}}
	var out []c08Spec
	for _, card := range []int{lexref.CStarNG, lexref.CPlusNG} {
		for _, p := range prefixes {
			for _, b := range bodies {
				for _, t := range terms {
					var parts []*lexref.Rx
					if p != nil {
						parts = append(parts, p)
					}
					parts = append(parts, lexref.Rep(b, card), lexref.Lit(t))
					// the non-greedy rule as a token and as each kind of fragment
					// (discarding, emitting, accumulating into the next token)
					for kind := 0; kind < 4; kind++ {
						ng := lexref.Rule{K: lexref.RToken, Name: "NG", Rx: lexref.Cat(parts...)}
						var extra []lexref.Rule
						switch kind {
						case 1:
							ng = lexref.Rule{K: lexref.RFrag, Rx: ng.Rx, Actions: []lexref.Action{{K: lexref.ADiscard}}}
						case 2:
							ng = lexref.Rule{K: lexref.RFrag, Rx: ng.Rx, Actions: []lexref.Action{{K: lexref.AEmit, Arg: "EM"}}}
							extra = []lexref.Rule{{K: lexref.RToken, Name: "EM", Rx: lexref.Lit("@")}}
						case 3:
							ng = lexref.Rule{K: lexref.RFrag, Rx: ng.Rx}
						}
						for ci, comp := range companions {
							if quick && ci > 3 && len(t) == 3 {
								continue
							}
							if kind > 0 && (ci > 3 || ci == 2 || (quick && len(t) == 3)) {
								continue // fragment kinds: alone, with ID, with the blank-discarding fragment
							}
							for pos := 0; pos < 2; pos++ {
								if comp == nil && pos == 1 {
									continue
								}
								var rules []lexref.Rule
								if pos == 0 {
									rules = append(append(rules, ng), comp...)
								} else {
									rules = append(append(rules, comp...), ng)
								}
								rules = append(rules, extra...)
								out = append(out, c08Spec{spec: &lexref.Spec{Modes: []lexref.Mode{{Rules: rules}}}})
							}
						}
					}
				}
			}
		}
	}
	// A greedy tail after the terminator, for bodies that share no character
	// with the terminator: once the terminator has been read the non-greedy
	// repetition is closed and what follows is consumed greedily
	// ("[ab]+? 'x' [ab]*" matches "aaxab" whole).
	for _, card := range []int{lexref.CStarNG, lexref.CPlusNG} {
		for _, p := range []*lexref.Rx{nil, lexref.Lit("y")} {
			for _, b := range []*lexref.Rx{cls(lexref.Ch('a'), lexref.Ch('b')), lexref.Alt(cls(lexref.Ch('a')), cls(lexref.Ch('b')))} {
				for _, t := range []string{"x", "xy", "yx"} {
					for _, tail := range []*lexref.Rx{lexref.Rep(cls(lexref.Ch('a'), lexref.Ch('b')), lexref.CStar), lexref.Rep(lexref.Lit("b"), lexref.COpt), lexref.Rep(cls(lexref.Range('a', 'z')), lexref.CPlus)} {
						var parts []*lexref.Rx
						if p != nil {
							parts = append(parts, p)
						}
						parts = append(parts, lexref.Rep(b, card), lexref.Lit(t), tail)
						ng := lexref.Rule{K: lexref.RToken, Name: "NG", Rx: lexref.Cat(parts...)}
						for _, comp := range [][]lexref.Rule{nil, {id}, {ws}} {
							rules := append([]lexref.Rule{ng}, comp...)
							out = append(out, c08Spec{spec: &lexref.Spec{Modes: []lexref.Mode{{Rules: rules}}}})
						}
					}
				}
			}
		}
	}
	return out
}

var c08Symbols = [][]byte{[]byte("a"), []byte("b"), []byte("x"), []byte("y"), []byte(" "), []byte("é")}

func c08One(ws *pipe.Workspace, idx int64, s *lexref.Spec, L int, st *mc.Stats) []mc.Violation {
	var out []mc.Violation
	b := lx.Build(ws, s, "")
	switch b.Status {
	case lx.Rejected:
		st.Add("specs_rejected", 1)
		st.Note("rejected: " + firstLine(b.Res.Diag) + " e.g. {" + s.OneLine() + "}")
		return nil
	case lx.Panicked:
		return []mc.Violation{{Property: "C12", Check: "C08", Kind: "generator-panic", Size: len(s.OneLine()),
			Case: lexCaseJSON("ng", idx, s, nil, nil, L), Detail: "generator panicked on {" + s.OneLine() + "}: " + firstLine(b.Res.Panic)}}
	case lx.Broken:
		st.HarnessError("spec {%s}: %s", s.OneLine(), b.Problem)
		return nil
	}
	st.Evaluations++
	st.Validated++
	if b.ModeCountProblem != "" {
		out = append(out, mc.Violation{Property: "C10", Check: "C08", Kind: "mode-tables-missing", Size: len(s.OneLine()),
			Case: lexCaseJSON("ng", idx, s, nil, nil, L), Detail: "spec {" + s.OneLine() + "}: " + b.ModeCountProblem})
	}
	classify := func(detail string) string {
		// D3 model: the spec contains +? and the real machine behaves exactly
		// like the same spec with +? read as greedy +.
		return ""
	}
	_ = classify
	pr := lx.Product(b, px.NB, lx.ProductOpts{MaxDepth: 2, StopAtError: true, CompareEvents: true, NGStop: ngStop, IsNG: ruleIsNG})
	st.Add("ambiguous_decisions_followed", int64(pr.Ambiguous))
	st.States += int64(pr.States)
	st.Transitions += int64(pr.Transitions)
	for _, mm := range pr.Mismatches {
		out = append(out, mc.Violation{Property: "C08", Check: "C08", Kind: "product-" + mm.Kind, Size: len(s.OneLine())*100 + len(mm.Path),
			Case:   lexCaseJSON("ng", idx, s, mm.Path, nil, L),
			Detail: fmt.Sprintf("spec {%s} after pushing %s: %s", s.OneLine(), mm.PathText(), mm.Detail)})
	}
	if len(out) > 0 {
		return out
	}
	st.Nontrivial++
	b.Install(px.NB)
	nbad := 0
	forByteStrings(c08Symbols, L, func(in []byte) {
		if nbad > 0 {
			return
		}
		st.Add("driver_inputs", 1)
		got, stuck, pmsg := lx.ImplTokensGuard(px.NB, b, in, true, 4*len(in)+8)
		want := lx.RefTokensNG(b, in, ngStop, ruleIsNG)
		if want == nil {
			st.Add("driver_inputs_ambiguous", 1)
			return
		}
		if pmsg != "" || stuck || !lx.SameToks(got, want) {
			nbad++
			cp := append([]byte(nil), in...)
			out = append(out, mc.Violation{Property: "C08", Check: "C08", Kind: "driver-tokens", Size: len(s.OneLine())*100 + len(in),
				Case:   lexCaseJSON("ng", idx, s, nil, cp, L),
				Detail: fmt.Sprintf("spec {%s} input %q: driver produced %v (stuck=%v panic=%q), the rules define %v", s.OneLine(), in, got, stuck, pmsg, want)})
		}
	})
	return out
}

func c08Worker(c *mc.Ctx) {
	ws := pipe.NewWorkspace("c08")
	defer ws.Close()
	L := 7
	if c.Quick() {
		L = 5
	}
	for i, cs := range c08Specs(c.Quick()) {
		if !c.Mine(int64(i)) {
			continue
		}
		if len(c.Stats.Samples) < 3 && i%97 == 5 {
			c.Stats.Sample(map[string]any{"spec": cs.spec.OneLine(), "driver_strings_up_to_symbols": L})
		}
		for _, v := range c08One(ws, int64(i), cs.spec, L, &c.Stats) {
			c.Stats.Violate(v)
		}
	}
}

func c08Replay(raw json.RawMessage) *mc.Violation {
	var lc lexCase
	if err := json.Unmarshal(raw, &lc); err != nil {
		return &mc.Violation{Property: "C08", Kind: "bad-replay", Detail: err.Error()}
	}
	ws := pipe.NewWorkspace("c08r")
	defer ws.Close()
	var st mc.Stats
	vs := c08One(ws, lc.Index, lc.Spec, lc.L, &st)
	if len(vs) == 0 {
		return nil
	}
	return &vs[0]
}

func init() {
	mc.Register(&mc.Check{
		ID:    "C08",
		Level: "model_checking",
		Rule: "specifications: prefix {none,'x','xy','xx'} x body {., [ab], ~[b], [a]|[b], [a-z]} x terminator {all literals of length 1-3 over a,b; 'x','xa','ax'} x {*?, +?} x the rule written as a token, a discarding, an emitting and an accumulating fragment x greedy companions {none, identifier, rule sharing the prefix, whitespace, literal, pairs} placed before or after; plus rules with a greedy tail after the terminator where body and terminator share no character; " +
			"each: BFS of the product (real state machine) x (reference in which a rule of the non-greedy shape ends at its first complete match) - all input lengths - plus all strings up to L symbols through the real driver; non-trivial = accepted spec whose product was searched completely",
		Assume: []string{"reference: internal/lexref derivatives; a run ends at the first point where a rule with a non-greedy repetition is complete while that repetition is still open (once the terminator closes it, what follows is greedy)", "when a non-greedy rule completes, the earliest-declared rule matching exactly that run acts (the general rule of C02)"},
		Worker: c08Worker,
		Replay: c08Replay,
	})
}
