package main

import (
	"encoding/json"
	"fmt"
	"sort"
	"strings"

	"github.com/dcaiafa/lox/internal/lexergen/rang3"
	"github.com/dcaiafa/lox/verif/internal/ivl"
	"github.com/dcaiafa/lox/verif/internal/lexref"
	"github.com/dcaiafa/lox/verif/internal/mc"
	"github.com/dcaiafa/lox/verif/internal/pipe"
)

// The small universe is embedded at both ends of the real code space (the code
// hard-wires 0x10FFFF).
var c15Points = []int{0, 1, 2, 3, 0x10FFFC, 0x10FFFD, 0x10FFFE, 0x10FFFF}

func c15Ranges() []rang3.Range {
	var out []rang3.Range
	for i, lo := range c15Points {
		for _, hi := range c15Points[i:] {
			out = append(out, rang3.Range{B: rune(lo), E: rune(hi)})
		}
	}
	return out
}

func toSet(rs []rang3.Range) ivl.Set {
	var in []ivl.R
	for _, r := range rs {
		in = append(in, ivl.R{Lo: int(r.B), Hi: int(r.E)})
	}
	return ivl.Norm(in)
}

func sortedDisjoint(rs []rang3.Range, nonTouching bool) string {
	for i, r := range rs {
		if r.B > r.E {
			return fmt.Sprintf("range %d reversed: %v", i, r)
		}
		if i > 0 {
			p := rs[i-1]
			if r.B <= p.E {
				return fmt.Sprintf("ranges %d and %d not sorted/disjoint: [%X,%X] [%X,%X]", i-1, i, p.B, p.E, r.B, r.E)
			}
			if nonTouching && r.B == p.E+1 {
				return fmt.Sprintf("ranges %d and %d touch: [%X,%X] [%X,%X]", i-1, i, p.B, p.E, r.B, r.E)
			}
		}
	}
	return ""
}

type c15Case struct {
	Op string        `json:"op"`
	A  []rang3.Range `json:"a"`
	B  []rang3.Range `json:"b,omitempty"`
	C  []rang3.Range `json:"c,omitempty"`
}

// c15Aliasing: the result of Subtract(a, b1), kept by the caller, must still be
// the same ranges after Subtract(a, b2) and a Flatten have run.
func c15Aliasing(a, b1, b2 []rang3.Range) (problem string) {
	defer func() {
		if x := recover(); x != nil {
			problem = ""
		}
	}()
	cp := func(x []rang3.Range) []rang3.Range { return append([]rang3.Range(nil), x...) }
	kept := rang3.Subtract(cp(a), cp(b1))
	before := rangesText(kept)
	rang3.Subtract(cp(a), cp(b2))
	rang3.Flatten(cp(b2), func(oa, ob, n rang3.Range) {})
	if after := rangesText(kept); after != before {
		return fmt.Sprintf("the first result was %s; after the second call the slice the caller holds reads %s", before, after)
	}
	return ""
}

func rangesText(rs []rang3.Range) string {
	s := "["
	for i, r := range rs {
		if i > 0 {
			s += " "
		}
		s += fmt.Sprintf("%X-%X", r.B, r.E)
	}
	return s + "]"
}

func c15Flatten(a []rang3.Range) (problem string) {
	defer func() {
		if x := recover(); x != nil {
			problem = fmt.Sprint("Flatten panicked: ", x)
		}
	}()
	want := toSet(a)
	in := append([]rang3.Range(nil), a...)
	var merges int
	got := rang3.Flatten(in, func(oa, ob, n rang3.Range) {
		merges++
		// the callback's contract: n is exactly oa ∪ ob
		if !ivl.Equal(toSet([]rang3.Range{oa, ob}), toSet([]rang3.Range{n})) {
			merges = -1 << 20
		}
	})
	if merges < 0 {
		return "Flatten reported a merge whose result is not the union of the two merged ranges"
	}
	if p := sortedDisjoint(got, true); p != "" {
		return "Flatten result " + rangesText(got) + ": " + p
	}
	if !ivl.Equal(toSet(got), want) {
		return fmt.Sprintf("Flatten result %s denotes %s, the input denotes %s", rangesText(got), toSet(got), want)
	}
	return ""
}

func c15Subtract(a, b []rang3.Range) (problem string) {
	defer func() {
		if x := recover(); x != nil {
			problem = fmt.Sprint("Subtract panicked: ", x)
		}
	}()
	want := ivl.Diff(toSet(a), toSet(b))
	got := rang3.Subtract(append([]rang3.Range(nil), a...), append([]rang3.Range(nil), b...))
	if !ivl.Equal(toSet(got), want) {
		return fmt.Sprintf("Subtract result %s denotes %s, the difference is %s", rangesText(got), toSet(got), want)
	}
	if len(a) > 0 && len(b) > 0 {
		if p := sortedDisjoint(got, false); p != "" {
			return "Subtract result " + rangesText(got) + ": " + p
		}
	}
	return ""
}

// c15Normalize mirrors what the mode builder does with the callback: every
// original range keeps the list of pieces it was split into.
func c15Normalize(a []rang3.Range) string {
	pieces := map[rang3.Range][]rang3.Range{}
	for _, r := range a {
		pieces[r] = []rang3.Range{r}
	}
	steps := 0
	bad := ""
	func() {
		defer func() {
			if x := recover(); x != nil {
				bad = fmt.Sprint("Normalize panicked: ", x)
			}
		}()
		rang3.Normalize(append([]rang3.Range(nil), a...), func(o, x, y, z rang3.Range) {
			steps++
			if steps > 100000 {
				panic("more than 100000 splits")
			}
			repl := []rang3.Range{x, y}
			if z != y {
				repl = append(repl, z)
			}
			if !ivl.Equal(toSet(repl), toSet([]rang3.Range{o})) && bad == "" {
				bad = fmt.Sprintf("split of [%X,%X] into %s is not an exact partition", o.B, o.E, rangesText(repl))
			}
			found := false
			for k, ps := range pieces {
				var np []rang3.Range
				for _, p := range ps {
					if p == o {
						np = append(np, repl...)
						found = true
					} else {
						np = append(np, p)
					}
				}
				pieces[k] = np
			}
			if !found && bad == "" {
				bad = fmt.Sprintf("split reported for [%X,%X], which is not a current piece of any input range", o.B, o.E)
			}
		})
	}()
	if bad != "" {
		return bad
	}
	var all []rang3.Range
	var origs []rang3.Range
	for k := range pieces {
		origs = append(origs, k)
	}
	sort.Slice(origs, func(i, j int) bool { return rang3.Compare(origs[i], origs[j]) < 0 })
	for _, k := range origs {
		ps := pieces[k]
		if !ivl.Equal(toSet(ps), toSet([]rang3.Range{k})) {
			return fmt.Sprintf("after Normalize the pieces %s of [%X,%X] are not an exact union of it", rangesText(ps), k.B, k.E)
		}
		total := 0
		for _, p := range ps {
			total += int(p.E-p.B) + 1
		}
		if total != int(k.E-k.B)+1 {
			return fmt.Sprintf("after Normalize the pieces %s of [%X,%X] overlap each other", rangesText(ps), k.B, k.E)
		}
		all = append(all, ps...)
	}
	for i := range all {
		for j := i + 1; j < len(all); j++ {
			if all[i] != all[j] && all[i].Intersects(all[j]) {
				return fmt.Sprintf("after Normalize pieces [%X,%X] and [%X,%X] overlap without being equal", all[i].B, all[i].E, all[j].B, all[j].E)
			}
		}
	}
	return ""
}

func forRangeLists(rs []rang3.Range, maxLen int, shard func(i int64) bool, f func(l []rang3.Range)) {
	var idx int64
	var rec func(cur []rang3.Range)
	rec = func(cur []rang3.Range) {
		if len(cur) > 0 || true {
			if len(cur) <= 1 {
				// shard on the first element
			}
			f(cur)
		}
		if len(cur) == maxLen {
			return
		}
		for _, r := range rs {
			if len(cur) == 0 {
				idx++
				if !shard(idx) {
					continue
				}
			}
			rec(append(cur[:len(cur):len(cur)], r))
		}
	}
	rec(nil)
}

// Class expressions as lox text (b): items drawn from the boundary points.
var c15Items = []int{0, 1, '\t', '\n', '\r', '-', '\\', ']', 'a', 'b', 0x7F, 0x80, 0xD7FF, 0xE000, 0xFFFD, 0x10FFFE, 0x10FFFF}

func c15Classes(quick bool) []*lexref.Class {
	var items []lexref.ClassItem
	pts := c15Items
	if quick {
		pts = []int{0, 1, '\n', '-', '\\', 'a', 'b', 0x80, 0xFFFD, 0x10FFFE, 0x10FFFF} // both edges with their neighbours: an off-by-one at 0 or U+10FFFF needs a class ending one short of the edge
	}
	for i, lo := range pts {
		items = append(items, lexref.Ch(lo))
		for _, hi := range pts[i+1:] {
			items = append(items, lexref.Range(lo, hi))
		}
	}
	var plain []*lexref.Class
	for i := range items {
		plain = append(plain, &lexref.Class{Items: []lexref.ClassItem{items[i]}})
	}
	// two-item classes from a thinner menu
	thin := items
	if len(thin) > 24 {
		var t []lexref.ClassItem
		for i := 0; i < len(thin); i += len(thin)/24 + 1 {
			t = append(t, thin[i])
		}
		thin = t
	}
	for i := range thin {
		for j := range thin {
			if i != j {
				plain = append(plain, &lexref.Class{Items: []lexref.ClassItem{thin[i], thin[j]}})
			}
		}
	}
	var out []*lexref.Class
	for _, c := range plain {
		out = append(out, c, &lexref.Class{Neg: true, Items: c.Items})
	}
	// differences: [x]-[y], ~[x]-[y], [x]-~[y], ~[x]-~[y] over the thin menu
	for i := range thin {
		for j := range thin {
			a, b := []lexref.ClassItem{thin[i]}, []lexref.ClassItem{thin[j]}
			out = append(out,
				&lexref.Class{Items: a, Sub: &lexref.Class{Items: b}},
				&lexref.Class{Neg: true, Items: a, Sub: &lexref.Class{Items: b}},
				&lexref.Class{Items: a, Sub: &lexref.Class{Neg: true, Items: b}},
				&lexref.Class{Neg: true, Items: a, Sub: &lexref.Class{Neg: true, Items: b}})
		}
	}
	return out
}

func c15Worker(c *mc.Ctx) {
	rs := c15Ranges()
	maxList, maxSub := 4, 2
	if c.Quick() {
		maxList, maxSub = 3, 2
	}
	report := func(op string, a, b []rang3.Range, detail string) {
		raw, _ := json.Marshal(c15Case{Op: op, A: a, B: b})
		c.Stats.Violate(mc.Violation{Property: "C15", Check: "C15", Kind: "rang3-" + op, Size: len(a) + len(b), Case: raw,
			Detail: fmt.Sprintf("%s(%s%s): %s", op, rangesText(a), map[bool]string{true: ", " + rangesText(b), false: ""}[b != nil], detail)})
	}
	mine := func(i int64) bool { return c.Mine(i) }
	// (a) Flatten / Normalize on all lists, Subtract on all pairs of short lists
	forRangeLists(rs, maxList, mine, func(l []rang3.Range) {
		if len(l) == 0 {
			return
		}
		c.Stats.Evaluations += 2
		if p := c15Flatten(l); p != "" {
			report("Flatten", append([]rang3.Range(nil), l...), nil, p)
		}
		if len(l) <= 3 || !c.Quick() {
			if p := c15Normalize(l); p != "" {
				report("Normalize", append([]rang3.Range(nil), l...), nil, p)
			}
		}
		if len(l) >= 3 {
			c.Stats.Nontrivial++
		}
	})
	var shortLists [][]rang3.Range
	forRangeLists(rs, maxSub, func(int64) bool { return true }, func(l []rang3.Range) {
		shortLists = append(shortLists, append([]rang3.Range(nil), l...))
	})
	for i, a := range shortLists {
		if !c.Mine(int64(i)) {
			continue
		}
		var prevB []rang3.Range
		for _, b := range shortLists {
			c.Stats.Evaluations++
			if p := c15Subtract(a, b); p != "" {
				report("Subtract", a, b, p)
			}
			// a result that the caller keeps must not change when Subtract (or
			// Flatten) is called again: class expressions hold the ranges of one
			// operand while the other one is computed
			if prevB != nil {
				if p := c15Aliasing(a, prevB, b); p != "" {
					raw, _ := json.Marshal(c15Case{Op: "Subtract-aliasing", A: a, B: prevB, C: b})
					c.Stats.Violate(mc.Violation{Property: "C15", Check: "C15", Kind: "rang3-Subtract-aliasing", Size: len(a) + len(b), Case: raw,
						Detail: fmt.Sprintf("Subtract(%s, %s) then Subtract(%s, %s): %s", rangesText(a), rangesText(prevB), rangesText(a), rangesText(b), p)})
				}
			}
			prevB = b
		}
	}
	c.Stats.Add("rang3_cases", c.Stats.Evaluations)
	if len(c.Stats.Samples) < 1 {
		c.Stats.Sample(map[string]any{"rang3": "Flatten/Normalize on every list of <= " + fmt.Sprint(maxList) + " ranges over end points {0,1,2,3,10FFFC..10FFFF}; Subtract on every pair of lists of <= 2"})
	}
	// (b),(c) class expressions and overlapping classes through the real front
	// end to the emitted tables, decided by the product search of C02.
	ws := pipe.NewWorkspace("c15")
	defer ws.Close()
	classes := c15Classes(c.Quick())
	inDomain := func(*lexref.Compiled) (bool, string) { return true, "" }
	for i, cl := range classes {
		if !c.Mine(int64(i)) {
			continue
		}
		if cl.Set().Empty() {
			c.Stats.Add("skipped_empty_class", 1)
			continue
		}
		s := &lexref.Spec{Modes: []lexref.Mode{{Rules: []lexref.Rule{{K: lexref.RToken, Name: "T1", Rx: lexref.Cls(cl)}}}}}
		if len(c.Stats.Samples) < 4 && i%211 == 3 {
			c.Stats.Sample(map[string]any{"class_spec": s.OneLine(), "denotes": cl.Set().String()})
		}
		for _, v := range c02One(ws, "class", int64(i), s, 1, &c.Stats, "C15", inDomain) {
			c.Stats.Violate(v)
		}
		// the same class with its non-ASCII code points typed verbatim in the source
		if strings.Contains(s.OneLine(), "\\u") || strings.Contains(s.OneLine(), "\\U") {
			lexref.Raw = true
			raw := s.OneLine()
			if strings.ContainsAny(raw, "\u0080\u00e9") || raw != "" {
				for _, v := range c02One(ws, "class-raw", int64(i), s, 1, &c.Stats, "C15", inDomain) {
					v.Kind += "-raw-text"
					c.Stats.Violate(v)
				}
				c.Stats.Add("classes_also_written_with_verbatim_characters", 1)
			}
			lexref.Raw = false
		}
	}
	// classes and literals over printable non-ASCII characters, written verbatim and escaped
	{
		pts := []int{0xE9, 0x3B1, 0x3C9, 0x20AC, 0x1F600, 'a'}
		var specs []*lexref.Spec
		for i, x := range pts {
			for _, y := range pts[i:] {
				specs = append(specs,
					&lexref.Spec{Modes: []lexref.Mode{{Rules: []lexref.Rule{{K: lexref.RToken, Name: "T1", Rx: lexref.Cls(&lexref.Class{Items: []lexref.ClassItem{lexref.Range(x, y)}})}}}}},
					&lexref.Spec{Modes: []lexref.Mode{{Rules: []lexref.Rule{{K: lexref.RToken, Name: "T1", Rx: lexref.Cls(&lexref.Class{Neg: true, Items: []lexref.ClassItem{lexref.Ch(x), lexref.Ch(y)}})}}}}},
					&lexref.Spec{Modes: []lexref.Mode{{Rules: []lexref.Rule{{K: lexref.RToken, Name: "T1", Rx: lexref.LitCP(x, y)}, {K: lexref.RToken, Name: "T2", Rx: lexref.LitCP(y)}}}}})
			}
		}
		for i, s := range specs {
			if !c.Mine(int64(i)) {
				continue
			}
			for _, raw := range []bool{false, true} {
				lexref.Raw = raw
				for _, v := range c02One(ws, fmt.Sprintf("nonascii-raw=%v", raw), int64(i), s, 2, &c.Stats, "C15", inDomain) {
					if raw {
						v.Kind += "-raw-text"
					}
					c.Stats.Violate(v)
				}
				lexref.Raw = false
			}
		}
	}
	// (c) overlapping classes in one mode: splitting feeds on its own output
	step := 1
	if c.Quick() {
		step = 23
	}
	n := int64(0)
	for i := 0; i < len(classes); i += step {
		for j := 1; j < len(classes); j += step*3 + 1 {
			n++
			if !c.Mine(n) {
				continue
			}
			a, b := classes[i], classes[(i+j)%len(classes)]
			k := classes[(i*7+j*3)%len(classes)]
			if a.Set().Empty() || b.Set().Empty() || k.Set().Empty() {
				continue
			}
			s := &lexref.Spec{Modes: []lexref.Mode{{Rules: []lexref.Rule{
				{K: lexref.RToken, Name: "T1", Rx: lexref.Cls(a)},
				{K: lexref.RToken, Name: "T2", Rx: lexref.Cat(lexref.Cls(b), lexref.Cls(k))},
				{K: lexref.RFrag, Rx: lexref.Rep(lexref.Cls(k), lexref.CPlus), Actions: []lexref.Action{{K: lexref.ADiscard}}},
			}}}}
			for _, v := range c02One(ws, "overlap", n, s, 1, &c.Stats, "C15", inDomain) {
				c.Stats.Violate(v)
			}
		}
	}
	// range algebra: rules that are each one range over a few adjacent points
	rangeAlgebraRun(c, ws, "C15", inDomain)
	// literals of <= 3 code points over the boundary points
	lits := []int{0, '\n', '\'', '\\', 'a', 0x80, 0xFFFD, 0x10FFFF}
	n = 0
	for _, x := range lits {
		for _, y := range append([]int{-1}, lits...) {
			for _, z := range append([]int{-1}, lits...) {
				n++
				if !c.Mine(n) || (y < 0 && z >= 0) {
					continue
				}
				cps := []int{x}
				if y >= 0 {
					cps = append(cps, y)
				}
				if z >= 0 {
					cps = append(cps, z)
				}
				s := &lexref.Spec{Modes: []lexref.Mode{{Rules: []lexref.Rule{{K: lexref.RToken, Name: "T1", Rx: lexref.LitCP(cps...)}}}}}
				for _, v := range c02One(ws, "literal", n, s, 1, &c.Stats, "C15", inDomain) {
					c.Stats.Violate(v)
				}
			}
		}
	}
}

func c15Replay(raw json.RawMessage) *mc.Violation {
	var rc c15Case
	if err := json.Unmarshal(raw, &rc); err == nil && rc.Op != "" {
		p := ""
		switch rc.Op {
		case "Flatten":
			p = c15Flatten(rc.A)
		case "Normalize":
			p = c15Normalize(rc.A)
		case "Subtract":
			p = c15Subtract(rc.A, rc.B)
		case "Subtract-aliasing":
			p = c15Aliasing(rc.A, rc.B, rc.C)
		}
		if p == "" {
			return nil
		}
		return &mc.Violation{Property: "C15", Check: "C15", Kind: "rang3-" + rc.Op, Detail: p}
	}
	return lexReplay("C15", func(*lexref.Compiled) (bool, string) { return true, "" })(raw)
}

func init() {
	mc.Register(&mc.Check{
		ID:    "C15",
		Level: "exploration",
		Rule: "(a) rang3.Flatten and rang3.Normalize on every list of up to 3 (quick) / 4 (thorough) ranges with end points in {0,1,2,3,0x10FFFC..0x10FFFF}, rang3.Subtract on every pair of lists of up to 2 ranges (and: a result kept by the caller is unchanged after the next calls), compared with the harness's interval arithmetic (sortedness, disjointness, same set, exact partition of every original range); " +
			"(b) class expressions [..], ~[..], [..]-[..], ~[..]-[..], [..]-~[..], ~[..]-~[..] with items and ranges over boundary code points (0, \\t \\n \\r, '-', '\\\\', ']', 0x7F/0x80, 0xD7FF/0xE000, 0xFFFD, 0x10FFFE/0x10FFFF) and literals of up to 3 code points, written as lox text, through the real front end to the emitted table: product search of the real state machine against the set-theoretic meaning on both end points and a middle point of every atom; " +
			"(c) rule sets of overlapping classes (range splitting feeding on its own output, then merging), including every specification of 3 rules that are each one range over the points a..f and of 4 over a..e (thorough: 4 over a..f, 5 over a..d), and the same classes written with verbatim non-ASCII characters; non-trivial = lists of >= 3 ranges and class specifications searched",
		Assume: []string{"reference: internal/ivl interval sets", "surrogate code points cannot be written with \\u escapes (they fold to U+FFFD) and are outside the domain"},
		Worker: c15Worker,
		Replay: c15Replay,
	})
}
