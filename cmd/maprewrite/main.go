// maprewrite type-checks the non-test sources of /repo and rewrites every
// `range` over a built-in map into a loop over verifmap.Keys (see
// /verif/hooks/verifmap.go). It writes the rewritten files under <out>/src and
// an overlay JSON (<out>/overlay.json) that also contains the codegen hook and
// the virtual package, plus <out>/sites.json listing the rewritten sites.
package main

import (
	"bytes"
	"encoding/json"
	"fmt"
	"github.com/dcaiafa/lox/verif/internal/root"
	"go/ast"
	"go/format"
	"go/token"
	"go/types"
	"os"
	"path/filepath"
	"strings"

	"golang.org/x/tools/go/ast/astutil"
	"golang.org/x/tools/go/packages"
)

const vmPath = "github.com/dcaiafa/lox/internal/base/verifmap"

func die(f string, a ...any) {
	fmt.Fprintf(os.Stderr, "maprewrite: "+f+"\n", a...)
	os.Exit(2)
}

func pure(e ast.Expr) bool {
	switch x := e.(type) {
	case *ast.Ident:
		return true
	case *ast.SelectorExpr:
		return pure(x.X)
	case *ast.ParenExpr:
		return pure(x.X)
	case *ast.StarExpr:
		return pure(x.X)
	}
	return false
}

func main() {
	if len(os.Args) != 2 {
		die("usage: maprewrite <outdir>")
	}
	out := os.Args[1]
	os.RemoveAll(out)
	os.MkdirAll(filepath.Join(out, "src"), 0o777)
	cfg := &packages.Config{
		Mode: packages.NeedName | packages.NeedFiles | packages.NeedSyntax | packages.NeedTypes | packages.NeedTypesInfo | packages.NeedCompiledGoFiles,
		Dir:  root.Repo(),
	}
	pkgs, err := packages.Load(cfg, "./...")
	if err != nil {
		die("load: %v", err)
	}
	overlay := map[string]string{
		root.RepoPath("internal/codegen/zz_verif_hook.go"):  root.Path("hooks", "codegen_hook.go"),
		root.RepoPath("internal/base/verifmap/verifmap.go"): root.Path("hooks", "verifmap.go"),
	}
	var sites []string
	var skipped []string
	for _, p := range pkgs {
		if len(p.Errors) > 0 {
			die("package %s: %v", p.PkgPath, p.Errors[0])
		}
		if strings.Contains(p.PkgPath, "/examples/") || strings.HasSuffix(p.PkgPath, "/internal/tests") {
			continue
		}
		for i, f := range p.Syntax {
			name := p.CompiledGoFiles[i]
			if strings.HasSuffix(name, "_test.go") {
				continue
			}
			changed := false
			n := 0
			astutil.Apply(f, func(c *astutil.Cursor) bool {
				rs, ok := c.Node().(*ast.RangeStmt)
				if !ok {
					return true
				}
				tv, ok := p.TypesInfo.Types[rs.X]
				if !ok {
					return true
				}
				if _, isMap := tv.Type.Underlying().(*types.Map); !isMap {
					return true
				}
				pos := p.Fset.Position(rs.Pos())
				site := fmt.Sprintf("%s:%d", strings.TrimPrefix(pos.Filename, root.Repo()+"/"), pos.Line)
				if !pure(rs.X) {
					skipped = append(skipped, site+" (range expression is not a plain variable or field)")
					return true
				}
				n++
				kv := fmt.Sprintf("_vk%d", n)
				var pre []ast.Stmt
				isBlank := func(e ast.Expr) bool {
					id, ok := e.(*ast.Ident)
					return e == nil || (ok && id.Name == "_")
				}
				if !isBlank(rs.Key) {
					pre = append(pre, &ast.AssignStmt{Lhs: []ast.Expr{rs.Key}, Tok: rs.Tok, Rhs: []ast.Expr{ast.NewIdent(kv)}})
				}
				okv := fmt.Sprintf("_vok%d", n)
				if !isBlank(rs.Value) {
					// v, ok := m[k]; if !ok { continue }   (entries deleted during the loop are not visited)
					if rs.Tok == token.DEFINE {
						pre = append(pre, &ast.AssignStmt{Lhs: []ast.Expr{rs.Value, ast.NewIdent(okv)}, Tok: token.DEFINE, Rhs: []ast.Expr{&ast.IndexExpr{X: rs.X, Index: ast.NewIdent(kv)}}})
					} else {
						pre = append(pre,
							&ast.DeclStmt{Decl: &ast.GenDecl{Tok: token.VAR, Specs: []ast.Spec{&ast.ValueSpec{Names: []*ast.Ident{ast.NewIdent(okv)}, Type: ast.NewIdent("bool")}}}},
							&ast.AssignStmt{Lhs: []ast.Expr{rs.Value, ast.NewIdent(okv)}, Tok: token.ASSIGN, Rhs: []ast.Expr{&ast.IndexExpr{X: rs.X, Index: ast.NewIdent(kv)}}})
					}
				} else {
					pre = append(pre, &ast.AssignStmt{Lhs: []ast.Expr{ast.NewIdent("_"), ast.NewIdent(okv)}, Tok: token.DEFINE, Rhs: []ast.Expr{&ast.IndexExpr{X: rs.X, Index: ast.NewIdent(kv)}}})
				}
				pre = append(pre, &ast.IfStmt{Cond: &ast.UnaryExpr{Op: token.NOT, X: ast.NewIdent(okv)}, Body: &ast.BlockStmt{List: []ast.Stmt{&ast.BranchStmt{Tok: token.CONTINUE}}}})
				rs.Body.List = append(pre, rs.Body.List...)
				rs.Key = ast.NewIdent("_")
				rs.Value = ast.NewIdent(kv)
				rs.Tok = token.DEFINE
				rs.X = &ast.CallExpr{
					Fun:  &ast.SelectorExpr{X: ast.NewIdent("verifmap"), Sel: ast.NewIdent("Keys")},
					Args: []ast.Expr{rs.X, &ast.BasicLit{Kind: token.STRING, Value: fmt.Sprintf("%q", site)}},
				}
				sites = append(sites, site)
				changed = true
				return true
			}, nil)
			if !changed {
				continue
			}
			astutil.AddImport(p.Fset, f, vmPath)
			var buf bytes.Buffer
			if err := format.Node(&buf, p.Fset, f); err != nil {
				die("print %s: %v", name, err)
			}
			dst := filepath.Join(out, "src", strings.TrimPrefix(name, root.Repo()+"/"))
			os.MkdirAll(filepath.Dir(dst), 0o777)
			if err := os.WriteFile(dst, buf.Bytes(), 0o666); err != nil {
				die("%v", err)
			}
			abs, _ := filepath.Abs(dst)
			overlay[name] = abs
		}
	}
	b, _ := json.MarshalIndent(map[string]any{"Replace": overlay}, "", " ")
	os.WriteFile(filepath.Join(out, "overlay.json"), b, 0o666)
	sb, _ := json.MarshalIndent(map[string]any{"sites": sites, "skipped": skipped}, "", " ")
	os.WriteFile(filepath.Join(out, "sites.json"), sb, 0o666)
	fmt.Printf("maprewrite: %d map-range sites rewritten, %d skipped\n", len(sites), len(skipped))
}
