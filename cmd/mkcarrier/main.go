// mkcarrier runs the real pipeline of /repo's current tree on a one-rule
// grammar (twice: parser type without / with _onBounds) and writes the
// "carrier" packages: the generated runtime, instrumented with _vtick calls
// and with _act replaced by a generic tree-building action. Tables stay
// package-level vars so that loxmc can swap them per enumerated grammar.
package main

import (
	"bytes"
	_ "embed"
	"fmt"
	"go/ast"
	"go/format"
	goparser "go/parser"
	gotoken "go/token"
	"os"
	"path/filepath"
	"strings"

	"github.com/dcaiafa/lox/verif/internal/gen"
	"github.com/dcaiafa/lox/verif/internal/pipe"
)

//go:embed harness.go.txt
var harnessTmpl string

func die(f string, a ...any) {
	fmt.Fprintf(os.Stderr, "mkcarrier: "+f+"\n", a...)
	os.Exit(2)
}

func main() {
	if len(os.Args) != 2 {
		die("usage: mkcarrier <outdir>")
	}
	out := os.Args[1]
	ws := pipe.NewWorkspace("mkcarrier")
	defer ws.Close()
	for _, bounds := range []bool{false, true} {
		name := "nb"
		if bounds {
			name = "b"
		}
		build(ws, filepath.Join(out, name), bounds)
	}
}

func carrierGrammar() *gen.Grammar {
	return &gen.Grammar{
		Toks:  []string{"X"},
		Rules: []gen.Rule{{Name: "s", Alts: []gen.Alt{{Terms: []gen.Term{{X: gen.Sym{K: gen.T, I: 0}}}}}}},
	}
}

func build(ws *pipe.Workspace, dir string, bounds bool) {
	g := carrierGrammar()
	res := ws.RunFast(&pipe.Spec{
		Lox: map[string]string{"g.lox": g.LoxText()},
		Go:  map[string]string{"user.go": g.CarrierUserGo(bounds)},
	}, nil)
	if !res.OK {
		die("carrier generation failed (bounds=%v) stage=%s panic=%s diag=%s", bounds, res.Stage, res.Panic, res.Diag)
	}
	os.RemoveAll(dir)
	if err := os.MkdirAll(filepath.Join(dir, "orig"), 0o777); err != nil {
		die("%v", err)
	}
	write := func(p, s string) {
		if err := os.WriteFile(p, []byte(s), 0o666); err != nil {
			die("%v", err)
		}
	}
	write(filepath.Join(dir, "orig", "base.gen.go.txt"), res.Base)
	write(filepath.Join(dir, "orig", "lexer.gen.go.txt"), res.Lexer)
	write(filepath.Join(dir, "orig", "parser.gen.go.txt"), res.Parser)

	var sites []string
	write(filepath.Join(dir, "base.gen.go"), instrument("base.gen.go", res.Base, &sites))
	write(filepath.Join(dir, "lexer.gen.go"), instrument("lexer.gen.go", res.Lexer, &sites))
	write(filepath.Join(dir, "parser.gen.go"), instrument("parser.gen.go", res.Parser, &sites))

	h := harnessTmpl
	if bounds {
		h = strings.Replace(h, "%HASBOUNDS%", "true", 1)
		h = strings.Replace(h, "%ONBOUNDS%", `func (p *parser) _onBounds(r any, begin, end Token) {
	p.Trace = append(p.Trace, ctypes.Ev{Kind: ctypes.EvBounds, Res: r, Begin: begin, End: end})
}`, 1)
	} else {
		h = strings.Replace(h, "%HASBOUNDS%", "false", 1)
		h = strings.Replace(h, "%ONBOUNDS%", "", 1)
	}
	h = strings.Replace(h, "%NAME%", filepath.Base(dir), 1)
	var sb strings.Builder
	for _, s := range sites {
		fmt.Fprintf(&sb, "\t\t%q,\n", s)
	}
	h = strings.Replace(h, "%SITES%", sb.String(), 1)
	// extra tables of the current templates, installed by name
	var cases, names strings.Builder
	for _, src := range []string{res.Parser, res.Lexer} {
		var parts *pipe.GenParts
		var err error
		if src == res.Parser {
			parts, err = pipe.ParserParts(src)
		} else {
			parts, err = pipe.LexerParts(src)
		}
		if err != nil {
			die("split: %v", err)
		}
		for _, n := range parts.ExtraTables() {
			el := pipe.TableElem(src, n)
			if el == "" {
				die("extra table %s: element type not recognised", n)
			}
			fmt.Fprintf(&cases, "\t\tcase %q:\n\t\t\t%s = convTab[%s](vals)\n\t\t\treturn true\n", n, n, el)
			fmt.Fprintf(&names, "%q, ", n)
		}
	}
	h = strings.Replace(h, "%EXTRACASES%", cases.String(), 1)
	h = strings.Replace(h, "%EXTRANAMES%", names.String(), 1)
	write(filepath.Join(dir, "carrier.go"), h)
}

// instrument inserts `_vtick(<site>)` at the top of every for-loop body, and replaces the body of _act by `return p.vAct(prod)`.
// Nothing else is changed.
func instrument(name, src string, sites *[]string) string {
	fset := gotoken.NewFileSet()
	f, err := goparser.ParseFile(fset, name, src, 0)
	if err != nil {
		die("parse %s: %v", name, err)
	}
	tick := func(desc string) ast.Stmt {
		id := len(*sites)
		*sites = append(*sites, desc)
		return &ast.ExprStmt{X: &ast.CallExpr{
			Fun:  ast.NewIdent("_vtick"),
			Args: []ast.Expr{&ast.BasicLit{Kind: gotoken.INT, Value: fmt.Sprint(id)}},
		}}
	}
	for _, d := range f.Decls {
		fd, ok := d.(*ast.FuncDecl)
		if !ok || fd.Body == nil {
			continue
		}
		fname := fd.Name.Name
		if fname == "_act" {
			fd.Body.List = []ast.Stmt{&ast.ReturnStmt{Results: []ast.Expr{
				&ast.CallExpr{
					Fun:  &ast.SelectorExpr{X: ast.NewIdent("p"), Sel: ast.NewIdent("vAct")},
					Args: []ast.Expr{ast.NewIdent("prod")},
				}}}}
			continue
		}
		nloop := 0
		ast.Inspect(fd.Body, func(n ast.Node) bool {
			switch l := n.(type) {
			case *ast.ForStmt:
				l.Body.List = append([]ast.Stmt{tick(fmt.Sprintf("%s:loop%d", fname, nloop))}, l.Body.List...)
				nloop++
			case *ast.RangeStmt:
				l.Body.List = append([]ast.Stmt{tick(fmt.Sprintf("%s:loop%d", fname, nloop))}, l.Body.List...)
				nloop++
			}
			return true
		})
	}
	var buf bytes.Buffer
	if err := format.Node(&buf, fset, f); err != nil {
		die("print %s: %v", name, err)
	}
	return buf.String()
}
