package main

import (
	"fmt"
	"os"

	"github.com/dcaiafa/lox/verif/internal/lexref"
	"github.com/dcaiafa/lox/verif/internal/lx"
	"github.com/dcaiafa/lox/verif/internal/pipe"
	"github.com/dcaiafa/lox/verif/internal/px"
)

func main() {
	cls := func(items ...lexref.ClassItem) *lexref.Rx { return lexref.Cls(&lexref.Class{Items: items}) }
	ng := lexref.Rule{K: lexref.RToken, Name: "NG", Rx: lexref.Cat(lexref.Lit("x"), lexref.Rep(cls(lexref.Range('a', 'z')), lexref.CStarNG), lexref.Lit("q"))}
	id := lexref.Rule{K: lexref.RToken, Name: "ID", Rx: lexref.Rep(cls(lexref.Range('a', 'z')), lexref.CPlus)}
	s := &lexref.Spec{Modes: []lexref.Mode{{Rules: []lexref.Rule{ng, id}}}}
	ws := pipe.NewWorkspace("dbglex")
	defer ws.Close()
	b := lx.Build(ws, s, "")
	fmt.Println(s.LexerText(), b.Status, b.Problem)
	b.Install(px.NB)
	for _, in := range os.Args[1:] {
		got, stuck, p := lx.ImplTokens(px.NB, []byte(in), true, 20)
		fmt.Printf("%q impl=%v stuck=%v panic=%q\n", in, got, stuck, p)
	}
}
