// Package root locates the verification tree: /verif, or $VERIF_ROOT when the
// checks run from a snapshot (vp run).
package root

import (
	"os"
	"path/filepath"
)

func Dir() string {
	if d := os.Getenv("VERIF_ROOT"); d != "" {
		return d
	}
	return "/verif"
}

func Path(elem ...string) string {
	return filepath.Join(append([]string{Dir()}, elem...)...)
}
