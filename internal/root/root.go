// Package root locates the verification tree: /verif, or $VERIF_ROOT when the
// checks run from a snapshot (vp run).
package root

import (
	"os"
	"path/filepath"
)

func Dir() string {
	if d := os.Getenv("VERIF_ROOT"); d != "" {
		return d
	}
	return "/verif"
}

func Path(elem ...string) string {
	return filepath.Join(append([]string{Dir()}, elem...)...)
}

// Repo is the tree of dcaiafa/lox under test: /repo, or $VERIF_REPO (a scratch
// worktree, used when seeded changes are tried without touching /repo).
func Repo() string {
	if d := os.Getenv("VERIF_REPO"); d != "" {
		return d
	}
	return "/repo"
}

func RepoPath(elem ...string) string {
	return filepath.Join(append([]string{Repo()}, elem...)...)
}
