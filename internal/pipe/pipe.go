// Package pipe drives the real lox pipeline of /repo's current working tree
// (through the overlay hook VerifGenerateFast) and reads the emitted tables
// back from the generated source text.
package pipe

import (
	"bytes"
	"fmt"
	gotoken "go/token"
	gotypes "go/types"
	"os"
	"path/filepath"
	"regexp"
	"runtime/debug"
	"sort"
	"strconv"
	"strings"

	"github.com/dcaiafa/lox/internal/base/errlogger"
	"github.com/dcaiafa/lox/internal/codegen"
)

// Spec is one input to lox: .lox files and user .go files of one directory.
type Spec struct {
	Lox map[string]string // file name -> text
	Go  map[string]string // file name -> text
}

// Result of one pipeline run.
type Result struct {
	OK      bool
	Stage   string
	Panic   string // non-empty if the generator panicked
	Diag    string // everything written to the error logger
	Base    string // base.gen.go   ("" if not written)
	Lexer   string // lexer.gen.go
	Parser  string // parser.gen.go
	V       *codegen.VerifResult
	Fset    *gotoken.FileSet
	Dir     string
	PkgPath string
}

// Workspace is a scratch directory (under /dev/shm) reused between runs.
type Workspace struct {
	Root string
	n    int
}

func ScratchRoot() string {
	if st, err := os.Stat("/dev/shm"); err == nil && st.IsDir() {
		return "/dev/shm"
	}
	return os.TempDir()
}

func NewWorkspace(tag string) *Workspace {
	root, err := os.MkdirTemp(ScratchRoot(), "loxmc."+tag+".")
	if err != nil {
		panic(err)
	}
	return &Workspace{Root: root}
}

func (w *Workspace) Close() { os.RemoveAll(w.Root) }

const PkgPath = "example.com/carrier"

// dirFor returns a clean directory for one run. The directory name is fixed so
// that file names inside diagnostics are stable.
func (w *Workspace) dirFor() string {
	dir := filepath.Join(w.Root, "p")
	os.RemoveAll(dir)
	if err := os.MkdirAll(dir, 0o777); err != nil {
		panic(err)
	}
	return dir
}

// ReverseCreate makes writeSpec create the .lox files in reverse name order
// (directory enumeration order depends on creation order on some file systems;
// the generator must not).
var ReverseCreate bool

func writeSpec(dir string, s *Spec) {
	var names []string
	for n := range s.Lox {
		names = append(names, n)
	}
	sort.Strings(names)
	if ReverseCreate {
		for i, j := 0, len(names)-1; i < j; i, j = i+1, j-1 {
			names[i], names[j] = names[j], names[i]
		}
	}
	for _, n := range names {
		if err := os.WriteFile(filepath.Join(dir, n), []byte(s.Lox[n]), 0o666); err != nil {
			panic(err)
		}
	}
	for n, t := range s.Go {
		if err := os.WriteFile(filepath.Join(dir, n), []byte(t), 0o666); err != nil {
			panic(err)
		}
	}
}

// ReadFile reads a file that must exist.
func ReadFile(path string) string {
	b, err := os.ReadFile(path)
	if err != nil {
		panic(err)
	}
	return string(b)
}

func readIf(path string) string {
	b, err := os.ReadFile(path)
	if err != nil {
		return ""
	}
	return string(b)
}

// RunFast runs the whole pipeline (fast ParseGo) on s.
func (w *Workspace) RunFast(s *Spec, imp gotypes.Importer) (res *Result) {
	dir := w.dirFor()
	writeSpec(dir, s)
	return w.RunFastDir(dir, imp)
}

func (w *Workspace) RunFastDir(dir string, imp gotypes.Importer) (res *Result) {
	fset := gotoken.NewFileSet()
	var diag bytes.Buffer
	errs := errlogger.New(fset, &diag)
	res = &Result{Fset: fset, Dir: dir, PkgPath: PkgPath}
	func() {
		defer func() {
			if r := recover(); r != nil {
				res.Panic = fmt.Sprintf("%v\n%s", r, debug.Stack())
			}
		}()
		res.V = codegen.VerifGenerateFast(&codegen.Config{Fset: fset, Errs: errs, Dir: dir}, PkgPath, imp)
		res.OK = res.V.OK
		res.Stage = res.V.Stage
	}()
	res.Diag = normDiag(diag.String(), dir)
	res.Base = readIf(filepath.Join(dir, "base.gen.go"))
	res.Lexer = readIf(filepath.Join(dir, "lexer.gen.go"))
	res.Parser = readIf(filepath.Join(dir, "parser.gen.go"))
	return res
}

// RunFastOver generates prev, then replaces prev's sources by s's in the same
// directory (the generated files of the first run stay) and generates again:
// what a user gets who edits the specification and re-runs lox.
func (w *Workspace) RunFastOver(prev, s *Spec, imp gotypes.Importer) (first, second *Result) {
	dir := w.dirFor()
	writeSpec(dir, prev)
	first = w.RunFastDir(dir, imp)
	for n := range prev.Lox {
		os.Remove(filepath.Join(dir, n))
	}
	for n := range prev.Go {
		os.Remove(filepath.Join(dir, n))
	}
	writeSpec(dir, s)
	second = w.RunFastDir(dir, imp)
	return first, second
}

// normDiag makes diagnostics independent of the scratch directory's name.
func normDiag(d, dir string) string {
	if rel, err := filepath.Rel(mustGetwd(), dir); err == nil {
		d = strings.ReplaceAll(d, rel+"/", "")
	}
	d = strings.ReplaceAll(d, dir+"/", "")
	return d
}

func mustGetwd() string {
	wd, err := os.Getwd()
	if err != nil {
		return "/"
	}
	return wd
}

// RunFastReport is RunFast with the --report text captured.
func (w *Workspace) RunFastReport(s *Spec, imp gotypes.Importer) (*Result, string) {
	dir := w.dirFor()
	writeSpec(dir, s)
	fset := gotoken.NewFileSet()
	var diag, rep bytes.Buffer
	errs := errlogger.New(fset, &diag)
	res := &Result{Fset: fset, Dir: dir, PkgPath: PkgPath}
	func() {
		defer func() {
			if r := recover(); r != nil {
				res.Panic = fmt.Sprintf("%v\n%s", r, debug.Stack())
			}
		}()
		res.V = codegen.VerifGenerateFast(&codegen.Config{Fset: fset, Errs: errs, Dir: dir, Report: &rep}, PkgPath, imp)
		res.OK = res.V.OK
		res.Stage = res.V.Stage
	}()
	res.Diag = normDiag(diag.String(), dir)
	res.Base = readIf(filepath.Join(dir, "base.gen.go"))
	res.Lexer = readIf(filepath.Join(dir, "lexer.gen.go"))
	res.Parser = readIf(filepath.Join(dir, "parser.gen.go"))
	return res, rep.String()
}

// RunLexer runs the pipeline up to EmitLexer (no Go analysis).
func (w *Workspace) RunLexer(s *Spec) (res *Result) {
	dir := w.dirFor()
	writeSpec(dir, s)
	fset := gotoken.NewFileSet()
	var diag bytes.Buffer
	errs := errlogger.New(fset, &diag)
	res = &Result{Fset: fset, Dir: dir, PkgPath: PkgPath}
	func() {
		defer func() {
			if r := recover(); r != nil {
				res.Panic = fmt.Sprintf("%v\n%s", r, debug.Stack())
			}
		}()
		res.V = codegen.VerifGenerateLexer(&codegen.Config{Fset: fset, Errs: errs, Dir: dir})
		res.OK = res.V.OK
		res.Stage = res.V.Stage
	}()
	res.Diag = normDiag(diag.String(), dir)
	res.Base = readIf(filepath.Join(dir, "base.gen.go"))
	res.Lexer = readIf(filepath.Join(dir, "lexer.gen.go"))
	return res
}

// RunFront runs only ParseLox (front end + LALR construction).
func (w *Workspace) RunFront(s *Spec, report bool) (res *Result, reportText string) {
	dir := w.dirFor()
	writeSpec(dir, s)
	fset := gotoken.NewFileSet()
	var diag, rep bytes.Buffer
	errs := errlogger.New(fset, &diag)
	res = &Result{Fset: fset, Dir: dir}
	func() {
		defer func() {
			if r := recover(); r != nil {
				res.Panic = fmt.Sprintf("%v\n%s", r, debug.Stack())
			}
		}()
		cfg := &codegen.Config{Fset: fset, Errs: errs, Dir: dir}
		if report {
			cfg.Report = &rep
		}
		res.V = codegen.VerifFrontEnd(cfg)
		res.OK = res.V.OK
		res.Stage = res.V.Stage
	}()
	res.Diag = normDiag(diag.String(), dir)
	return res, rep.String()
}

// RunReal runs the repository's real codegen.Generate (with packages.Load) in
// process. The directory must be inside a Go module.
func RunReal(dir string) (ok bool, diag string, panicMsg string) {
	fset := gotoken.NewFileSet()
	var d bytes.Buffer
	errs := errlogger.New(fset, &d)
	func() {
		defer func() {
			if r := recover(); r != nil {
				panicMsg = fmt.Sprintf("%v\n%s", r, debug.Stack())
			}
		}()
		ok = codegen.Generate(&codegen.Config{Fset: fset, Errs: errs, Dir: dir})
	}()
	return ok, d.String(), panicMsg
}

// ---------------------------------------------------------------------------
// Splitting a generated file into skeleton + tables (+ cut functions).

// GenParts is a generated file cut into the parts that depend on the grammar
// (tables, and functions named in cutFuncs) and the rest (Skeleton).
type GenParts struct {
	Skeleton string
	Tables   map[string][]int64
	Idents   map[string][]string // tables whose elements are identifiers (e.g. _lexerModes)
	Order    []string            // table names in file order
	Funcs    map[string]string   // cut function name -> text
	Consts   string              // first const ( ... ) block if cutConst
}

// SplitGen cuts `var <name> = []T{ ... }` declarations whose name has one of
// tablePrefixes, and top-level functions whose header contains one of
// cutFuncs, out of gofmt-formatted source. Cut regions are replaced by a
// marker line so that the skeleton still shows where they were.
func SplitGen(src string, tablePrefixes []string, cutFuncs []string, cutConst bool) (*GenParts, error) {
	p := &GenParts{Tables: map[string][]int64{}, Idents: map[string][]string{}, Funcs: map[string]string{}}
	lines := strings.Split(src, "\n")
	var sk strings.Builder
	constDone := false
	for i := 0; i < len(lines); i++ {
		ln := lines[i]
		if strings.HasPrefix(ln, "var ") {
			rest := ln[4:]
			sp := strings.IndexByte(rest, ' ')
			if sp > 0 {
				name := rest[:sp]
				match := false
				for _, pre := range tablePrefixes {
					if pre == "*" {
						// any package-level table of integers (or of such tables)
						if strings.HasPrefix(name, "_") && intTableRe.MatchString(ln) {
							match = true
						}
					} else if strings.HasPrefix(name, pre) {
						match = true
					}
				}
				if match && strings.HasSuffix(ln, "{") {
					// find closing line "}"
					j := i + 1
					var nums []int64
					isNum := true
					idents := 0
					var identLines []string
					for ; j < len(lines) && lines[j] != "}"; j++ {
						if strings.TrimSpace(lines[j]) != "" {
							idents++
						}
						identLines = append(identLines, lines[j])
						for _, f := range strings.Split(lines[j], ",") {
							f = strings.TrimSpace(f)
							if f == "" {
								continue
							}
							v, err := strconv.ParseInt(f, 10, 64)
							if err != nil {
								isNum = false
								continue
							}
							nums = append(nums, v)
						}
					}
					if j >= len(lines) {
						return nil, fmt.Errorf("unterminated table %s", name)
					}
					if isNum {
						p.Tables[name] = nums
					} else {
						// table of identifiers (e.g. _lexerModes): count entries
						p.Tables[name] = []int64{int64(idents)}
						for _, l := range identLines {
							for _, f := range strings.Split(l, ",") {
								if f = strings.TrimSpace(f); f != "" {
									p.Idents[name] = append(p.Idents[name], f)
								}
							}
						}
					}
					p.Order = append(p.Order, name)
					sk.WriteString("<<table " + tableClass(name) + ">>\n")
					i = j
					continue
				}
				if match && strings.HasSuffix(ln, "{}") {
					p.Tables[name] = nil
					p.Order = append(p.Order, name)
					sk.WriteString("<<table " + tableClass(name) + ">>\n")
					continue
				}
			}
		}
		if strings.HasPrefix(ln, "func ") {
			cut := ""
			for _, f := range cutFuncs {
				if strings.Contains(ln, f) {
					cut = f
				}
			}
			if cut != "" {
				j := i
				for ; j < len(lines) && lines[j] != "}"; j++ {
				}
				if j >= len(lines) {
					return nil, fmt.Errorf("unterminated func %s", cut)
				}
				p.Funcs[cut] = strings.Join(lines[i:j+1], "\n")
				sk.WriteString("<<func " + cut + ">>\n")
				i = j
				continue
			}
		}
		if cutConst && !constDone && ln == "const (" {
			j := i
			for ; j < len(lines) && lines[j] != ")"; j++ {
			}
			p.Consts = strings.Join(lines[i:j+1], "\n")
			sk.WriteString("<<const>>\n")
			constDone = true
			i = j
			continue
		}
		sk.WriteString(ln)
		sk.WriteByte('\n')
	}
	p.Skeleton = sk.String()
	return p, nil
}

var intTableRe = regexp.MustCompile(`^var _\w+ = (\[\])?\[\]u?int(8|16|32|64)?\{`)

// KnownTable reports whether the carrier harness installs the table itself
// (the four parser tables, the mode tables and their index); any other table
// of integers a template declares is an "extra" table, installed by name.
func KnownTable(name string) bool {
	switch name {
	case "_rules", "_termCounts", "_actions", "_goto", "_lexerModes":
		return true
	}
	return strings.HasPrefix(name, "_lexerMode")
}

// ExtraTables lists the extra tables of a split file in file order.
func (p *GenParts) ExtraTables() []string {
	var out []string
	for _, n := range p.Order {
		if !KnownTable(n) {
			out = append(out, n)
		}
	}
	return out
}

// TableElem returns the element type of a table declared in src ("" if absent).
func TableElem(src, name string) string {
	m := regexp.MustCompile(`(?m)^var ` + regexp.QuoteMeta(name) + ` = \[\](u?int(?:8|16|32|64)?)\{`).FindStringSubmatch(src)
	if m == nil {
		return ""
	}
	return m[1]
}

// tableClass maps _lexerMode3 -> _lexerModeN so that the skeleton is the same
// whatever the number of modes.
func tableClass(name string) string {
	if strings.HasPrefix(name, "_lexerMode") && name != "_lexerModes" {
		return "_lexerModeN"
	}
	return name
}

// CollapseModeMarkers makes the number of consecutive _lexerModeN markers
// irrelevant for skeleton comparison.
func CollapseModeMarkers(sk string) string {
	const m = "<<table _lexerModeN>>\n"
	for {
		// gofmt leaves blank lines between the declarations
		s2 := strings.ReplaceAll(sk, m+"\n"+m, m)
		s2 = strings.ReplaceAll(s2, m+m, m)
		if s2 == sk {
			return sk
		}
		sk = s2
	}
}

func ParserParts(src string) (*GenParts, error) {
	return SplitGen(src, []string{"_rules", "_termCounts", "_actions", "_goto", "*"}, []string{") _act("}, false)
}

func LexerParts(src string) (*GenParts, error) {
	p, err := SplitGen(src, []string{"_lexerMode", "*"}, nil, false)
	if err != nil {
		return nil, err
	}
	p.Skeleton = CollapseModeMarkers(p.Skeleton)
	return p, nil
}

// BaseParts: everything before `type _Stack` in base.gen.go is about the
// grammar's terminals (constants, names); the runtime part that the carrier
// relies on starts at the stack type.
func BaseParts(src string) (*GenParts, error) {
	i := strings.Index(src, "type _Stack[")
	if i < 0 {
		return nil, fmt.Errorf("base.gen.go has no _Stack type")
	}
	return &GenParts{Skeleton: src[i:], Consts: src[:i], Tables: map[string][]int64{}, Funcs: map[string]string{}}, nil
}

// FirstDiff describes the first differing line of two texts.
func FirstDiff(a, b string) string {
	la, lb := strings.Split(a, "\n"), strings.Split(b, "\n")
	for i := 0; i < len(la) || i < len(lb); i++ {
		var x, y string
		if i < len(la) {
			x = la[i]
		}
		if i < len(lb) {
			y = lb[i]
		}
		if x != y {
			return fmt.Sprintf("line %d: %q vs %q", i+1, x, y)
		}
	}
	return "identical"
}
