// Package ivl is the harness's own interval-set arithmetic over the code space
// [0, 0x10FFFF]: sorted, disjoint, non-adjacent closed intervals. It shares no
// code with lox's rang3.
package ivl

import (
	"fmt"
	"sort"
	"strings"
)

const Max = 0x10FFFF

type R struct{ Lo, Hi int }

// Set is normalised: sorted, disjoint, non-touching.
type Set []R

func Norm(rs []R) Set {
	var in []R
	for _, r := range rs {
		if r.Lo <= r.Hi {
			in = append(in, r)
		}
	}
	sort.Slice(in, func(i, j int) bool {
		if in[i].Lo != in[j].Lo {
			return in[i].Lo < in[j].Lo
		}
		return in[i].Hi < in[j].Hi
	})
	var out Set
	for _, r := range in {
		if n := len(out); n > 0 && r.Lo <= out[n-1].Hi+1 {
			if r.Hi > out[n-1].Hi {
				out[n-1].Hi = r.Hi
			}
			continue
		}
		out = append(out, r)
	}
	return out
}

func Union(a, b Set) Set { return Norm(append(append([]R(nil), a...), b...)) }

func Complement(a Set) Set {
	var out Set
	next := 0
	for _, r := range a {
		if r.Lo > next {
			out = append(out, R{next, r.Lo - 1})
		}
		next = r.Hi + 1
	}
	if next <= Max {
		out = append(out, R{next, Max})
	}
	return out
}

func Intersect(a, b Set) Set {
	var out Set
	i, j := 0, 0
	for i < len(a) && j < len(b) {
		lo, hi := maxI(a[i].Lo, b[j].Lo), minI(a[i].Hi, b[j].Hi)
		if lo <= hi {
			out = append(out, R{lo, hi})
		}
		if a[i].Hi < b[j].Hi {
			i++
		} else {
			j++
		}
	}
	return out
}

func Diff(a, b Set) Set { return Intersect(a, Complement(b)) }

func (s Set) Has(x int) bool {
	i := sort.Search(len(s), func(i int) bool { return s[i].Hi >= x })
	return i < len(s) && s[i].Lo <= x
}

func (s Set) Empty() bool { return len(s) == 0 }

func Equal(a, b Set) bool {
	if len(a) != len(b) {
		return false
	}
	for i := range a {
		if a[i] != b[i] {
			return false
		}
	}
	return true
}

func (s Set) String() string {
	var p []string
	for _, r := range s {
		if r.Lo == r.Hi {
			p = append(p, fmt.Sprintf("%X", r.Lo))
		} else {
			p = append(p, fmt.Sprintf("%X-%X", r.Lo, r.Hi))
		}
	}
	return "{" + strings.Join(p, ",") + "}"
}

func minI(a, b int) int {
	if a < b {
		return a
	}
	return b
}
func maxI(a, b int) int {
	if a > b {
		return a
	}
	return b
}

// Atoms partitions [0,Max] by the boundaries of all given sets: the result is
// a sorted list of intervals such that every given set is a union of atoms.
func Atoms(sets []Set) []R {
	cuts := map[int]bool{0: true, Max + 1: true}
	for _, s := range sets {
		for _, r := range s {
			cuts[r.Lo] = true
			cuts[r.Hi+1] = true
		}
	}
	var cs []int
	for c := range cuts {
		cs = append(cs, c)
	}
	sort.Ints(cs)
	var out []R
	for i := 0; i+1 < len(cs); i++ {
		out = append(out, R{cs[i], cs[i+1] - 1})
	}
	return out
}
