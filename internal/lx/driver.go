package lx

import (
	"fmt"
	gotoken "go/token"
	"unicode/utf8"

	"github.com/dcaiafa/lox/verif/internal/ctypes"
	"github.com/dcaiafa/lox/verif/internal/lexref"
	"github.com/dcaiafa/loxlex/simplelexer"
)

// Tok is one observable result of ReadToken, or a discarded stretch.
type Tok struct {
	Kind  string // "tok", "discard", "error", "eof"
	Type  int
	Start int
	End   int
}

func (t Tok) String() string {
	switch t.Kind {
	case "tok":
		return fmt.Sprintf("tok(%d)[%d:%d]", t.Type, t.Start, t.End)
	case "discard":
		return fmt.Sprintf("discard[%d:%d]", t.Start, t.End)
	case "error":
		return fmt.Sprintf("ERROR@%d", t.Start)
	}
	return fmt.Sprintf("EOF@%d", t.Start)
}

// recSM wraps the real state machine and records discards (the driver does
// not report them).
type recSM struct {
	ctypes.SM
	Steps int
	Max   int
	// Discards are recorded by the caller through offsets it tracks itself.
	OnPush     func(r rune, ev int)
	ResetTicks func()
}

type abortLex struct{}

func (r *recSM) PushRune(x rune) int {
	r.Steps++
	if r.ResetTicks != nil {
		r.ResetTicks()
	}
	if r.Max > 0 && r.Steps > r.Max {
		panic(abortLex{})
	}
	ev := r.SM.PushRune(x)
	if r.OnPush != nil {
		r.OnPush(x, ev)
	}
	return ev
}

// ImplTokens runs the real simplelexer driver over the real state machine
// until EOF or the first ERROR token (inclusive), or at most maxTokens tokens.
// stuck reports that the step budget was exhausted (the caller decides
// non-termination exactly with the product search).
func ImplTokens(car *ctypes.Carrier, input []byte, stopAtError bool, maxTokens int) (toks []Tok, stuck bool, panicMsg string) {
	return ImplTokensGuard(car, nil, input, stopAtError, maxTokens)
}

// ImplTokensGuard is ImplTokens with the PushRune hang guard of b installed.
func ImplTokensGuard(car *ctypes.Carrier, b *Built, input []byte, stopAtError bool, maxTokens int) (toks []Tok, stuck bool, panicMsg string) {
	fset := gotoken.NewFileSet()
	file := fset.AddFile("in", -1, len(input))
	sm := &recSM{SM: car.NewSM(), Max: 50*len(input) + 200}
	if b != nil {
		reset, remove := HangGuard(b, car)
		sm.ResetTicks = reset
		defer remove()
	}
	defer func() {
		if x := recover(); x != nil {
			if _, ok := x.(abortLex); ok {
				stuck = true
				return
			}
			panicMsg = fmt.Sprint(x)
		}
	}()
	l := simplelexer.New(simplelexer.Config{StateMachine: sm, File: file, Input: input})
	base := int(file.Pos(0))
	for i := 0; i < maxTokens; i++ {
		t, typ := l.ReadToken()
		start := int(t.Pos) - base
		switch typ {
		case simplelexer.EOF:
			toks = append(toks, Tok{Kind: "eof", Start: start})
			return
		case simplelexer.ERROR:
			toks = append(toks, Tok{Kind: "error", Start: start})
			if stopAtError {
				return
			}
		default:
			toks = append(toks, Tok{Kind: "tok", Type: typ, Start: start, End: start + len(t.Str)})
		}
	}
	return
}

// RefTokens is the documented token stream computed on the reference machine,
// up to and including the first error. Discards are not part of the observable
// stream and are omitted.
func RefTokens(b *Built, input []byte, ng func(m *RefM) bool) []Tok {
	return RefTokensNG(b, input, ng, nil)
}

// RefTokensNG is RefTokens with the C08 ambiguity rule: it returns nil when an
// ambiguous situation is met (the statement defines no stream then).
func RefTokensNG(b *Built, input []byte, ng func(m *RefM) bool, isNG func(r *lexref.Rule) bool) []Tok {
	m := NewRefM(b.C)
	m.NGStop = ng
	m.IsNG = isNG
	var toks []Tok
	pos, start := 0, -1
	for steps := 0; steps < 100*len(input)+1000; steps++ {
		r, w := -1, 0
		if pos < len(input) {
			rr, ww := utf8.DecodeRune(input[pos:])
			r, w = int(rr), ww
		}
		if start == -1 {
			start = pos
		}
		atom := -1
		if r >= 0 {
			atom = b.C.AtomOf(r)
		}
		if m.Ambiguous(atom) {
			return nil
		}
		ev := m.Push(atom)
		switch ev.K {
		case EvConsume:
			pos += w
		case EvAccept:
			toks = append(toks, Tok{Kind: "tok", Type: ev.Tok, Start: start, End: pos})
			start = -1
		case EvDiscard:
			start = -1
		case EvTryAgain:
		case EvEOF:
			toks = append(toks, Tok{Kind: "eof", Start: start})
			return toks
		case EvError:
			toks = append(toks, Tok{Kind: "error", Start: start})
			return toks
		}
	}
	return append(toks, Tok{Kind: "ref-livelock"})
}

func SameToks(a, b []Tok) bool {
	if len(a) != len(b) {
		return false
	}
	for i := range a {
		if a[i] != b[i] {
			return false
		}
	}
	return true
}

// ---------------------------------------------------------------------------
// Conservation of input (C11): the real driver run with a recorder around the
// real state machine, so that discards and error stretches get spans too.

// Stream is what one complete lexing run did with the input.
type Stream struct {
	Items    []Tok  // tok / discard / error (Start..End = stretch skipped) / eof
	Stuck    string // non-empty: exact livelock description
	Panic    string
	Steps    int
	Finished bool // EOF token was returned
}

// ImplStream lexes input to EOF with the real simplelexer over the real state
// machine. Offsets of discards and error stretches are reconstructed by
// decoding the input in parallel with the driver (the driver consumes exactly
// one rune per consume event, and on an error skips to the character after the
// next newline).
func ImplStream(car *ctypes.Carrier, b *Built, input []byte) (st *Stream) {
	st = &Stream{}
	fset := gotoken.NewFileSet()
	file := fset.AddFile("in", -1, len(input))
	base := int(file.Pos(0))
	inner := car.NewSM()
	reset, remove := HangGuard(b, car)
	defer remove()
	pos := 0      // offset of the next rune the driver will push
	runStart := 0 // offset where the current run (since last accept/discard/error) began
	type cfg struct {
		key string
		pos int
	}
	seen := map[cfg]bool{} // configurations at non-consuming events since the last consume
	sm := &recSM{SM: inner, ResetTicks: reset}
	sm.OnPush = func(r rune, ev int) {
		switch ev {
		case EvConsume:
			_, w := utf8.DecodeRune(input[pos:])
			pos += w
			seen = map[cfg]bool{}
			return
		case EvDiscard:
			st.Items = append(st.Items, Tok{Kind: "discard", Start: runStart, End: pos})
			runStart = pos
		case EvAccept:
			runStart = pos
		case EvError:
			// the driver skips to the character after the next newline
			p := pos
			for p < len(input) && input[p] != '\n' {
				_, w := utf8.DecodeRune(input[p:])
				p += w
			}
			if p < len(input) {
				p++
			}
			st.Items = append(st.Items, Tok{Kind: "error", Start: runStart, End: p})
			pos = p
			runStart = p
			seen = map[cfg]bool{}
			return
		}
		if ev == EvEOF {
			return
		}
		// non-consuming event: the driver will push the same rune again
		k := cfg{smKey(inner), pos}
		if seen[k] {
			panic(stuckLex{fmt.Sprintf("after %s at offset %d the state machine is in a configuration (state, mode, mode stack) it was already in at this offset: no input will ever be consumed again", EvName(ev), pos)})
		}
		seen[k] = true
		if _, _, stack := inner.Key(); len(stack) > len(input)+64 {
			panic(stuckLex{fmt.Sprintf("the mode stack grew to %d entries at offset %d without consuming input", len(stack), pos)})
		}
	}
	defer func() {
		if x := recover(); x != nil {
			if s, ok := x.(stuckLex); ok {
				st.Stuck = s.msg
				return
			}
			st.Panic = fmt.Sprint(x)
		}
	}()
	l := simplelexer.New(simplelexer.Config{StateMachine: sm, File: file, Input: input})
	for {
		t, typ := l.ReadToken()
		start := int(t.Pos) - base
		switch typ {
		case simplelexer.EOF:
			st.Items = append(st.Items, Tok{Kind: "eof", Start: start, End: start})
			st.Finished = true
			st.Steps = sm.Steps
			return st
		case simplelexer.ERROR:
			// span recorded by OnPush; check the reported position
			if n := len(st.Items); n == 0 || st.Items[n-1].Kind != "error" || st.Items[n-1].Start != start {
				st.Items = append(st.Items, Tok{Kind: "error-position-mismatch", Start: start})
			}
		default:
			st.Items = append(st.Items, Tok{Kind: "tok", Type: typ, Start: start, End: start + len(t.Str)})
		}
	}
}

type stuckLex struct{ msg string }

// Tiling checks that the items account for every byte of the input exactly
// once and in order. It returns "" or a description of the first gap/overlap.
func (s *Stream) Tiling(n int) string {
	cur := 0
	for _, it := range s.Items {
		switch it.Kind {
		case "eof":
			if it.Start != cur || cur != n {
				return fmt.Sprintf("EOF reported at offset %d after accounting for %d of %d bytes", it.Start, cur, n)
			}
			return ""
		case "tok", "discard", "error":
			if it.Start != cur {
				return fmt.Sprintf("%s starts at %d but the previous item ended at %d", it, it.Start, cur)
			}
			if it.End < it.Start {
				return fmt.Sprintf("%s has negative length", it)
			}
			cur = it.End
		default:
			return "unexpected item " + it.String()
		}
	}
	return "no EOF item"
}
