package lx

import (
	"fmt"
	gotoken "go/token"
	"unicode/utf8"

	"github.com/dcaiafa/lox/verif/internal/ctypes"
	"github.com/dcaiafa/lox/verif/internal/lexref"
	"github.com/dcaiafa/loxlex/simplelexer"
)

// Tok is one observable result of ReadToken, or a discarded stretch.
type Tok struct {
	Kind  string // "tok", "discard", "error", "eof"
	Type  int
	Start int
	End   int
}

func (t Tok) String() string {
	switch t.Kind {
	case "tok":
		return fmt.Sprintf("tok(%d)[%d:%d]", t.Type, t.Start, t.End)
	case "discard":
		return fmt.Sprintf("discard[%d:%d]", t.Start, t.End)
	case "error":
		return fmt.Sprintf("ERROR@%d", t.Start)
	}
	return fmt.Sprintf("EOF@%d", t.Start)
}

// recSM wraps the real state machine and records discards (the driver does
// not report them).
type recSM struct {
	ctypes.SM
	Steps int
	Max   int
	// Discards are recorded by the caller through offsets it tracks itself.
	OnPush     func(r rune, ev int)
	ResetTicks func()
}

type abortLex struct{}

func (r *recSM) PushRune(x rune) int {
	r.Steps++
	if r.ResetTicks != nil {
		r.ResetTicks()
	}
	if r.Max > 0 && r.Steps > r.Max {
		panic(abortLex{})
	}
	ev := r.SM.PushRune(x)
	if r.OnPush != nil {
		r.OnPush(x, ev)
	}
	return ev
}

// ImplTokens runs the real simplelexer driver over the real state machine
// until EOF or the first ERROR token (inclusive), or at most maxTokens tokens.
// stuck reports that the step budget was exhausted (the caller decides
// non-termination exactly with the product search).
func ImplTokens(car *ctypes.Carrier, input []byte, stopAtError bool, maxTokens int) (toks []Tok, stuck bool, panicMsg string) {
	return ImplTokensGuard(car, nil, input, stopAtError, maxTokens)
}

// ImplTokensGuard is ImplTokens with the PushRune hang guard of b installed.
func ImplTokensGuard(car *ctypes.Carrier, b *Built, input []byte, stopAtError bool, maxTokens int) (toks []Tok, stuck bool, panicMsg string) {
	fset := gotoken.NewFileSet()
	file := fset.AddFile("in", -1, len(input))
	sm := &recSM{SM: car.NewSM(), Max: 50*len(input) + 200}
	if b != nil {
		reset, remove := HangGuard(b, car)
		sm.ResetTicks = reset
		defer remove()
	}
	defer func() {
		if x := recover(); x != nil {
			if _, ok := x.(abortLex); ok {
				stuck = true
				return
			}
			panicMsg = fmt.Sprint(x)
		}
	}()
	l := simplelexer.New(simplelexer.Config{StateMachine: sm, File: file, Input: input})
	base := int(file.Pos(0))
	for i := 0; i < maxTokens; i++ {
		t, typ := l.ReadToken()
		start := int(t.Pos) - base
		switch typ {
		case simplelexer.EOF:
			toks = append(toks, Tok{Kind: "eof", Start: start})
			return
		case simplelexer.ERROR:
			toks = append(toks, Tok{Kind: "error", Start: start})
			if stopAtError {
				return
			}
		default:
			toks = append(toks, Tok{Kind: "tok", Type: typ, Start: start, End: start + len(t.Str)})
		}
	}
	return
}

// RefTokens is the documented token stream computed on the reference machine,
// up to and including the first error. Discards are not part of the observable
// stream and are omitted.
func RefTokens(b *Built, input []byte, ng func(m *RefM) bool) []Tok {
	return RefTokensNG(b, input, ng, nil)
}

// RefTokensNG is RefTokens with the C08 ambiguity rule: it returns nil when an
// ambiguous situation is met (the statement defines no stream then).
func RefTokensNG(b *Built, input []byte, ng func(m *RefM) bool, isNG func(r *lexref.Rule) bool) []Tok {
	m := NewRefM(b.C)
	m.NGStop = ng
	m.IsNG = isNG
	var toks []Tok
	pos, start := 0, -1
	for steps := 0; steps < 100*len(input)+1000; steps++ {
		r, w := -1, 0
		if pos < len(input) {
			rr, ww := utf8.DecodeRune(input[pos:])
			r, w = int(rr), ww
		}
		if start == -1 {
			start = pos
		}
		atom := -1
		if r >= 0 {
			atom = b.C.AtomOf(r)
		}
		if m.Ambiguous(atom) {
			return nil
		}
		ev := m.Push(atom)
		switch ev.K {
		case EvConsume:
			pos += w
		case EvAccept:
			toks = append(toks, Tok{Kind: "tok", Type: ev.Tok, Start: start, End: pos})
			start = -1
		case EvDiscard:
			start = -1
		case EvTryAgain:
		case EvEOF:
			toks = append(toks, Tok{Kind: "eof", Start: start})
			return toks
		case EvError:
			toks = append(toks, Tok{Kind: "error", Start: start})
			return toks
		}
	}
	return append(toks, Tok{Kind: "ref-livelock"})
}

func SameToks(a, b []Tok) bool {
	if len(a) != len(b) {
		return false
	}
	for i := range a {
		if a[i] != b[i] {
			return false
		}
	}
	return true
}
