package lx

import (
	"fmt"

	"github.com/dcaiafa/lox/verif/internal/ctypes"
)

// Two state machines of one generated package, used in turns.
//
// A "drive" feeds a rune string followed by EOF to a state machine with the
// policy of the reference driver reduced to its essentials: the same rune is
// pushed again until it is consumed; after an error the machine is Reset and
// the rune dropped. The trace is the sequence of PushRune results (with the
// token of an accept and the configuration after the call).

type pairStep struct {
	K, Tok      int
	State, Mode int
	Depth       int
	StackHash   uint64
}

func (s pairStep) key() string {
	return fmt.Sprintf("state %d, mode %d, stack depth %d (hash %x)", s.State, s.Mode, s.Depth, s.StackHash)
}

type driveState struct {
	sm    ctypes.SM
	in    []int
	pos   int
	again int
	done  bool
	trace []pairStep
}

func newDrive(car *ctypes.Carrier, in []int) *driveState {
	return &driveState{sm: car.NewSM(), in: in}
}

// step makes one PushRune call. It returns false when the drive is over.
func (d *driveState) step() bool {
	if d.done {
		return false
	}
	r := -1
	if d.pos < len(d.in) {
		r = d.in[d.pos]
	}
	k := d.sm.PushRune(rune(r))
	st := pairStep{K: k}
	if k == EvAccept {
		st.Tok = d.sm.Token()
	}
	var stack []int
	st.State, st.Mode, stack = d.sm.Key()
	st.Depth = len(stack)
	st.StackHash = 1469598103934665603
	for _, m := range stack {
		st.StackHash = (st.StackHash ^ uint64(m+1)) * 1099511628211
	}
	d.trace = append(d.trace, st)
	switch k {
	case EvConsume:
		d.pos++
		d.again = 0
	case EvEOF:
		d.done = true
	case EvError:
		d.sm.Reset()
		if r < 0 {
			d.done = true
		}
		d.pos++
		d.again = 0
	default:
		d.again++
		if d.again > 8 {
			d.done = true // an empty-match loop is C11's subject
		}
	}
	if len(d.trace) > 4*len(d.in)+16 {
		d.done = true
	}
	return !d.done
}

func sameTrace(a, b []pairStep) int {
	for i := 0; i < len(a) && i < len(b); i++ {
		if a[i] != b[i] {
			return i
		}
	}
	if len(a) != len(b) {
		if len(a) < len(b) {
			return len(a)
		}
		return len(b)
	}
	return -1
}

// PairResult of Pairs.
type PairResult struct {
	Pairs, Calls int
	Problem      string
	U, V         []int
}

// Pairs runs, for every ordered pair (u, v) of the given rune strings, two
// fresh state machines of the carrier in turns - one PushRune call each, u's
// machine first - and compares what each of them did with what it does alone.
func Pairs(b *Built, car *ctypes.Carrier, inputs [][]int) (res PairResult) {
	b.Install(car)
	reset, remove := HangGuard(b, car)
	defer remove()
	defer func() {
		if x := recover(); x != nil {
			res.Problem = fmt.Sprintf("PushRune panicked while two state machines were used in turns: %v", x)
		}
	}()
	solo := make([][]pairStep, len(inputs))
	for i, in := range inputs {
		d := newDrive(car, in)
		for {
			reset()
			if !d.step() {
				break
			}
		}
		solo[i] = d.trace
	}
	for i, u := range inputs {
		for j, v := range inputs {
			res.Pairs++
			res.U, res.V = u, v
			a, c := newDrive(car, u), newDrive(car, v)
			for {
				reset()
				ra := a.step()
				reset()
				rc := c.step()
				res.Calls += 2
				if !ra && !rc {
					break
				}
			}
			if k := sameTrace(a.trace, solo[i]); k >= 0 {
				res.Problem = fmt.Sprintf("the state machine reading %s, used in turns with a second state machine (of the same package) reading %s, differs from itself used alone at PushRune call #%d: %s", runesText(u), runesText(v), k, traceDiff(a.trace, solo[i], k))
				return
			}
			if k := sameTrace(c.trace, solo[j]); k >= 0 {
				res.Problem = fmt.Sprintf("the state machine reading %s, used in turns with a second state machine (of the same package) reading %s, differs from itself used alone at PushRune call #%d: %s", runesText(v), runesText(u), k, traceDiff(c.trace, solo[j], k))
				return
			}
		}
	}
	res.U, res.V = nil, nil
	return
}

func traceDiff(got, want []pairStep, k int) string {
	g, w := "(no call)", "(no call)"
	if k < len(got) {
		g = fmt.Sprintf("%s, then (state, mode, stack) = %s", Event{K: got[k].K, Tok: got[k].Tok}, got[k].key())
	}
	if k < len(want) {
		w = fmt.Sprintf("%s, then %s", Event{K: want[k].K, Tok: want[k].Tok}, want[k].key())
	}
	return "in turns: " + g + "; alone: " + w
}

func runesText(rs []int) string {
	s := "\""
	for _, r := range rs {
		s += RuneText(r)
	}
	return s + "\""
}
