// Package lx ("lexer explorer") binds a lexer specification to the carrier's
// real _LexerStateMachine and explores the product of that machine with the
// reference semantics of internal/lexref.
package lx

import (
	"fmt"
	"strings"

	"github.com/dcaiafa/lox/internal/lexergen/mode"
	"github.com/dcaiafa/lox/verif/internal/ctypes"
	"github.com/dcaiafa/lox/verif/internal/lexref"
	"github.com/dcaiafa/lox/verif/internal/pipe"
	"github.com/dcaiafa/lox/verif/internal/px"
)

const (
	Accepted = "accepted"
	Rejected = "rejected"
	Panicked = "panicked"
	Broken   = "broken"
)

type Built struct {
	Spec    *lexref.Spec
	C       *lexref.Compiled
	Res     *pipe.Result
	Status  string
	Problem string
	Modes   [][]uint32
	Extra   map[string][]int64 // tables a refactored template declares besides the mode tables
	DFAs    map[string]*mode.Mode
	// ModeCountProblem: number of emitted mode tables differs from the number of declared modes.
	ModeCountProblem string
}

const userGo = `package carrier

type Token struct {
	Type int
	Idx  int
}

type parser struct {
	lox
}
`

func LoxText(s *lexref.Spec, parserText string) string {
	t := s.LexerText()
	if parserText != "" {
		t += "\n" + parserText
	}
	return t
}

var origLexer *pipe.GenParts

func loadOrig() *pipe.GenParts {
	if origLexer != nil {
		return origLexer
	}
	b := pipe.ReadFile(px.CarrierDir + "/nb/orig/lexer.gen.go.txt")
	p, err := pipe.LexerParts(b)
	if err != nil {
		panic(err)
	}
	origLexer = p
	return p
}

// Build runs the pipeline up to EmitLexer and extracts the mode tables.
func Build(ws *pipe.Workspace, s *lexref.Spec, parserText string) *Built {
	return BuildText(ws, map[string]string{"g.lox": LoxText(s, parserText)}, s)
}

// BuildText is Build for a specification given as text (real-world .lox
// files) together with its translation s (see internal/fromast). Token
// constants are taken from the grammar object lox built, because the textual
// declaration order of such files is not what Spec.Tokens() assumes.
func BuildText(ws *pipe.Workspace, loxFiles map[string]string, s *lexref.Spec) *Built {
	b := &Built{Spec: s}
	b.Res = ws.RunLexer(&pipe.Spec{
		Lox: loxFiles,
		Go:  map[string]string{"user.go": userGo},
	})
	r := b.Res
	switch {
	case r.Panic != "":
		b.Status = Panicked
		return b
	case !r.OK:
		b.Status = Rejected
		return b
	}
	b.Status = Accepted
	if r.Lexer == "" {
		b.Status, b.Problem = Broken, "lexer.gen.go missing although the stages succeeded"
		return b
	}
	lp, err := pipe.LexerParts(r.Lexer)
	if err != nil {
		b.Status, b.Problem = Broken, err.Error()
		return b
	}
	if o := loadOrig(); lp.Skeleton != o.Skeleton {
		b.Status, b.Problem = Broken, "lexer.gen.go runtime text differs from carrier: "+pipe.FirstDiff(lp.Skeleton, o.Skeleton)
		return b
	}
	// The lexer finds a mode's table by position in _lexerModes.
	ids := lp.Idents["_lexerModes"]
	nm := len(ids)
	for _, id := range ids {
		t, ok := lp.Tables[id]
		if !ok {
			b.Status, b.Problem = Broken, fmt.Sprintf("_lexerModes names %s, which is not declared", id)
			return b
		}
		u := make([]uint32, len(t))
		for j, v := range t {
			u[j] = uint32(v)
		}
		b.Modes = append(b.Modes, u)
	}
	for _, n := range lp.ExtraTables() {
		if b.Extra == nil {
			b.Extra = map[string][]int64{}
		}
		b.Extra[n] = lp.Tables[n]
	}
	b.DFAs = r.V.Modes
	b.C = lexref.Compile(s)
	if b.C.Err != "" {
		b.Status, b.Problem = Broken, "reference could not compile an accepted spec: "+b.C.Err
		return b
	}
	if b.Res.V != nil && b.Res.V.Grammar != nil {
		for _, t := range b.Res.V.Grammar.Terminals {
			b.C.TokIndex[t.Name] = t.Index
		}
	}
	if nm != len(s.Modes) {
		// reported by the callers as a table-level (C10) violation; exploration goes on
		b.ModeCountProblem = fmt.Sprintf("%d mode tables emitted, the specification declares %d modes", nm, len(s.Modes))
	}
	return b
}

func (b *Built) Install(c *ctypes.Carrier) {
	c.SetLexerTables(b.Modes)
	for n, v := range b.Extra {
		c.SetExtraTable(n, v)
	}
}

// ---------------------------------------------------------------------------
// Events.

const (
	EvConsume  = 0
	EvAccept   = 1
	EvDiscard  = 2
	EvTryAgain = 3
	EvEOF      = 4
	EvError    = -1
)

func EvName(k int) string {
	switch k {
	case EvConsume:
		return "consume"
	case EvAccept:
		return "accept"
	case EvDiscard:
		return "discard"
	case EvTryAgain:
		return "try-again"
	case EvEOF:
		return "EOF"
	case EvError:
		return "error"
	}
	return fmt.Sprint(k)
}

type Event struct {
	K   int
	Tok int // EvAccept: lox terminal index
}

func (e Event) String() string {
	if e.K == EvAccept {
		return fmt.Sprintf("accept(%d)", e.Tok)
	}
	return EvName(e.K)
}

// ---------------------------------------------------------------------------
// Reference machine (documented semantics).

type RefM struct {
	C     *lexref.Compiled
	Stack []int // mode indices (lox numbering)
	St    lexref.RState
	Empty bool // nothing consumed since the last accept/discard/try-again/reset
	Accum bool // text of action-less fragments is being kept for the next emitting/discarding rule
	// Dead: an unmatched @pop_mode happened; the documentation defines nothing afterwards.
	Dead bool
	// NonGreedy semantics switch: when set, a rule of the C08 shape ends at the
	// first complete match (decided by NGStop).
	NGStop func(m *RefM) bool
	// IsNG tells which rules contain a non-greedy repetition (nil: none).
	IsNG func(r *lexref.Rule) bool
}

// Ambiguous reports the one situation in which the two clauses of C08 pull in
// different directions: a non-greedy rule matches the run exactly (its token
// should end here) while a greedy rule could still extend the run with the
// pending rune (its longest match is longer). The statement does not say who
// wins; the explorer then follows the real machine and only requires that
// whatever is emitted matches the run exactly.
func (m *RefM) Ambiguous(atom int) bool {
	if m.IsNG == nil || atom < 0 {
		return false
	}
	ngDone := false
	for i := range m.St.Mode.Rules {
		if m.IsNG(&m.St.Mode.Rules[i]) && m.C.Nullable(m.St.R[i]) && m.C.NGLive(m.St.R[i]) {
			ngDone = true
		}
	}
	if !ngDone {
		return false
	}
	n := m.C.Step(m.St, atom)
	for i := range m.St.Mode.Rules {
		if !m.IsNG(&m.St.Mode.Rules[i]) && n.R[i] != 0 {
			return true
		}
	}
	return false
}

// ForceConsume makes the reference consume atom (used in ambiguous situations).
func (m *RefM) ForceConsume(atom int) Event {
	n := m.C.Step(m.St, atom)
	if !n.Viable() {
		return Event{K: EvError}
	}
	m.St = n
	m.Empty = false
	return Event{K: EvConsume}
}

// ForceAct makes the reference end the run here.
func (m *RefM) ForceAct() Event {
	save := m.NGStop
	m.NGStop = func(*RefM) bool { return true }
	ev := m.Push(0)
	m.NGStop = save
	return ev
}

func NewRefM(c *lexref.Compiled) *RefM {
	return &RefM{C: c, St: c.InitState(c.ByIndex[0]), Empty: true}
}

func (m *RefM) Clone() *RefM {
	n := *m
	n.Stack = append([]int(nil), m.Stack...)
	n.St = lexref.RState{Mode: m.St.Mode, R: append([]int(nil), m.St.R...)}
	return &n
}

func (m *RefM) Key() string {
	return fmt.Sprint(m.Stack, "|", m.St.Key(), m.Empty, m.Accum, m.Dead)
}

// Push is the reference PushRune: atom < 0 means end of input.
func (m *RefM) Push(atom int) Event {
	if atom >= 0 && !(m.NGStop != nil && m.NGStop(m)) {
		n := m.C.Step(m.St, atom)
		if n.Viable() {
			m.St = n
			m.Empty = false
			return Event{K: EvConsume}
		}
	}
	// A rule only matches a non-empty run: an empty match would not advance
	// the input (the runtime refuses it; see the D9 fix).
	w := -1
	if !m.Empty {
		w = m.C.Winner(m.St)
	}
	if w < 0 {
		if m.Empty && !m.Accum && atom < 0 {
			// a clean end of input: no run in progress and no fragment text
			// waiting for a rule that emits or discards it
			return Event{K: EvEOF}
		}
		return Event{K: EvError}
	}
	rule := m.St.Mode.Rules[w]
	ev := Event{K: EvTryAgain}
	if rule.K == lexref.RToken {
		ev = Event{K: EvAccept, Tok: m.C.TokIndex[rule.Name]}
	}
	next := m.St.Mode.Index
	for _, a := range rule.Actions {
		switch a.K {
		case lexref.APush:
			m.Stack = append(m.Stack, next)
			next = m.C.ModeIndex[a.Arg]
		case lexref.APop:
			if len(m.Stack) == 0 {
				m.Dead = true
				return Event{K: EvError}
			}
			next = m.Stack[len(m.Stack)-1]
			m.Stack = m.Stack[:len(m.Stack)-1]
		case lexref.ADiscard:
			ev = Event{K: EvDiscard}
		case lexref.AEmit:
			ev = Event{K: EvAccept, Tok: m.C.TokIndex[a.Arg]}
		}
	}
	m.St = m.C.InitState(m.C.ByIndex[next])
	m.Empty = true
	m.Accum = ev.K == EvTryAgain
	return ev
}

// ---------------------------------------------------------------------------
// Product exploration.

type Mismatch struct {
	Path   []int // runes pushed from the initial configuration (-1 = EOF)
	Kind   string
	Detail string
}

func (mm *Mismatch) PathText() string {
	var p []string
	for _, r := range mm.Path {
		p = append(p, RuneText(r))
	}
	return "[" + strings.Join(p, " ") + "]"
}

func RuneText(r int) string {
	switch {
	case r < 0:
		return "EOF"
	case r > 32 && r < 127:
		return fmt.Sprintf("'%c'", rune(r))
	default:
		return fmt.Sprintf("U+%04X", r)
	}
}

type ProductOpts struct {
	MaxDepth    int  // mode stack depth bound
	StopAtError bool // do not explore past the first error event (C02/C07/C08)
	// Livelock: also search for cycles of non-consuming events on one pending rune.
	Livelock bool
	// ExtraRunes are added to the alphabet (besides atom end points).
	ExtraRunes []int
	// CompareEvents: when false only viability/termination aspects are checked (C11 on nullable specs).
	CompareEvents bool
	NGStop        func(m *RefM) bool
	IsNG          func(r *lexref.Rule) bool
	MaxStates     int
}

type ProductResult struct {
	States, Transitions int
	Mismatches          []*Mismatch
	DepthCapped         int
	StateCapped         bool
	Ambiguous           int
	UnmatchedPops       int
}

type pnode struct {
	sm     ctypes.SM
	ref    *RefM
	parent *pnode
	via    int
}

func (n *pnode) path(extra ...int) []int {
	var rev []int
	for x := n; x != nil && x.parent != nil; x = x.parent {
		rev = append(rev, x.via)
	}
	out := make([]int, 0, len(rev)+len(extra))
	for i := len(rev) - 1; i >= 0; i-- {
		out = append(out, rev[i])
	}
	return append(out, extra...)
}

// Alphabet returns the runes explored: both end points (and a middle point)
// of every atom, plus extras, plus -1.
func Alphabet(c *lexref.Compiled, extra []int) []int {
	seen := map[int]bool{}
	var out []int
	add := func(r int) {
		if r >= 0 && r <= 0x10FFFF && !seen[r] {
			seen[r] = true
			out = append(out, r)
		}
	}
	for _, a := range c.Atoms {
		add(a.Lo)
		add(a.Hi)
		add(a.Lo + (a.Hi-a.Lo)/2)
	}
	for _, r := range extra {
		add(r)
	}
	out = append(out, -1)
	return out
}

func smKey(sm ctypes.SM) string {
	st, md, stack := sm.Key()
	return fmt.Sprint(st, md, stack)
}

// HangGuard installs a tick handler on the carrier that panics when one
// PushRune call runs more loop iterations than its loops' state spaces allow:
// the binary search has state (b, e) with 0 <= b, e <= gotoCount and is
// deterministic, so more than (gotoCount+1)^2 iterations repeat a state; the
// action loop's index strictly increases. The bound used is derived from the
// largest table, hence exact (never a timeout).
func HangGuard(b *Built, car *ctypes.Carrier) (reset func(), remove func()) {
	maxLen := 0
	for _, m := range b.Modes {
		if len(m) > maxLen {
			maxLen = len(m)
		}
	}
	n := maxLen/3 + 2
	bound := n*n + maxLen + 8
	ticks := 0
	car.SetTick(func(site int) {
		ticks++
		if ticks > bound {
			panic(fmt.Sprintf("PushRune does not terminate: %d loop iterations in one call, more than the %d distinct loop states its tables allow (site %s)", ticks, bound, car.SiteNames[site]))
		}
	})
	return func() { ticks = 0 }, func() { car.SetTick(nil) }
}

// Product explores (real state machine x reference machine) breadth first.
func Product(b *Built, car *ctypes.Carrier, o ProductOpts) *ProductResult {
	res := &ProductResult{}
	b.Install(car)
	resetTicks, removeGuard := HangGuard(b, car)
	defer removeGuard()
	alpha := Alphabet(b.C, o.ExtraRunes)
	if o.MaxStates == 0 {
		o.MaxStates = 200000
	}
	root := &pnode{sm: car.NewSM(), ref: NewRefM(b.C)}
	root.ref.NGStop = o.NGStop
	root.ref.IsNG = o.IsNG
	seen := map[string]bool{smKey(root.sm) + "#" + root.ref.Key(): true}
	queue := []*pnode{root}
	report := func(n *pnode, r int, kind, detail string) {
		if len(res.Mismatches) < 3 {
			res.Mismatches = append(res.Mismatches, &Mismatch{Path: n.path(r), Kind: kind, Detail: detail})
		}
	}
	for len(queue) > 0 && len(res.Mismatches) == 0 {
		n := queue[0]
		queue = queue[1:]
		res.States++
		for _, r := range alpha {
			sm := n.sm.CloneSM()
			ref := n.ref.Clone()
			var iev Event
			panicked := ""
			func() {
				defer func() {
					if x := recover(); x != nil {
						panicked = fmt.Sprint(x)
					}
				}()
				resetTicks()
				iev.K = sm.PushRune(rune(r))
				if iev.K == EvAccept {
					iev.Tok = sm.Token()
				}
			}()
			res.Transitions++
			if panicked != "" {
				report(n, r, "panic", "PushRune panicked: "+panicked)
				continue
			}
			atom := -1
			if r >= 0 {
				atom = b.C.AtomOf(r)
			}
			var rev Event
			if ref.Ambiguous(atom) {
				res.Ambiguous++
				if iev.K == EvConsume {
					rev = ref.ForceConsume(atom)
				} else {
					rev = ref.ForceAct()
				}
			} else {
				rev = ref.Push(atom)
			}
			if ref.Dead {
				// unmatched @pop_mode: the documentation defines nothing for it;
				// the branch is closed without comparing
				res.UnmatchedPops++
				continue
			}
			if o.CompareEvents && iev != rev {
				report(n, r, "event-"+EvName(iev.K)+"-vs-"+EvName(rev.K), fmt.Sprintf("state machine returned %s, the rules define %s", iev, rev))
				continue
			}
			if !o.CompareEvents && (iev.K == EvConsume) != (rev.K == EvConsume) {
				report(n, r, "viability", fmt.Sprintf("state machine returned %s, the rules define %s", iev, rev))
				continue
			}
			if iev.K == EvEOF {
				continue
			}
			if iev.K == EvError {
				if o.StopAtError {
					continue
				}
				// what the reference driver does: Reset()
				sm.Reset()
				ref.St = b.C.InitState(b.C.ByIndex[0])
				ref.Empty = true
				// Reset() leaves the mode stack as it is.
			}
			_, imode, istack := sm.Key()
			if imode != ref.St.Mode.Index || !sameInts(istack, ref.Stack) {
				report(n, r, "mode", fmt.Sprintf("after %s the state machine is in mode %d with stack %v, the rules define mode %d with stack %v", iev, imode, istack, ref.St.Mode.Index, ref.Stack))
				continue
			}
			if len(ref.Stack) > o.MaxDepth {
				res.DepthCapped++
				continue
			}
			if o.Livelock && iev.K != EvConsume {
				if d := livelock(sm, r); d != "" {
					report(n, r, "livelock", d)
					continue
				}
			}
			k := smKey(sm) + "#" + ref.Key()
			if seen[k] {
				continue
			}
			if len(seen) >= o.MaxStates {
				res.StateCapped = true
				continue
			}
			seen[k] = true
			queue = append(queue, &pnode{sm: sm, ref: ref, parent: n, via: r})
		}
	}
	return res
}

// livelock pushes the same pending rune while the machine answers with
// non-consuming events. A repeated configuration is an exact livelock; so is a
// repeated (state, mode) with a taller mode stack that never dipped below the
// earlier height in between (the same moves repeat on top of an untouched
// base).
func livelock(sm ctypes.SM, r int) string {
	cur := sm.CloneSM()
	type rec struct {
		key    string
		height int
		min    int
	}
	var hist []rec
	note := func() (string, int) {
		st, md, stack := cur.Key()
		return fmt.Sprint(st, ",", md), len(stack)
	}
	k0, h0 := note()
	seen := map[string]bool{smKey(cur): true}
	hist = append(hist, rec{k0, h0, h0})
	for i := 0; i < 2000; i++ {
		ev := 0
		func() {
			defer func() {
				if recover() != nil {
					ev = EvError // a hang inside PushRune is reported by the caller's own push
				}
			}()
			ev = cur.PushRune(rune(r))
		}()
		if ev == EvConsume || ev == EvEOF || ev == EvError {
			return ""
		}
		k := smKey(cur)
		if seen[k] {
			return fmt.Sprintf("with %s pending the state machine keeps answering %s without consuming input and its configuration (state, mode, mode stack) repeats: the driver never advances", RuneText(r), EvName(ev))
		}
		seen[k] = true
		sk, h := note()
		for j := range hist {
			if h < hist[j].min {
				hist[j].min = h
			}
		}
		for j := range hist {
			if hist[j].key == sk && hist[j].height < h && hist[j].min >= hist[j].height {
				return fmt.Sprintf("with %s pending the state machine keeps answering %s without consuming input while its mode stack grows (%d -> %d) over an untouched base: the driver never advances", RuneText(r), EvName(ev), hist[j].height, h)
			}
		}
		hist = append(hist, rec{sk, h, h})
	}
	return ""
}

func sameInts(a, b []int) bool {
	if len(a) != len(b) {
		return false
	}
	for i := range a {
		if a[i] != b[i] {
			return false
		}
	}
	return true
}

// ImplGraph explores every configuration (state, mode, mode stack) of the real
// state machine reachable by any rune sequence (errors followed by Reset, as
// the reference driver does), with the mode stack bounded by maxDepth, and
// searches for livelocks: a pending rune on which the machine answers with
// non-consuming events forever. It needs no reference semantics.
func ImplGraph(b *Built, car *ctypes.Carrier, maxDepth int) *ProductResult {
	res := &ProductResult{}
	b.Install(car)
	resetTicks, removeGuard := HangGuard(b, car)
	defer removeGuard()
	alpha := Alphabet(b.C, []int{'\n'})
	root := &pnode{sm: car.NewSM()}
	seen := map[string]bool{smKey(root.sm): true}
	queue := []*pnode{root}
	for len(queue) > 0 && len(res.Mismatches) == 0 {
		n := queue[0]
		queue = queue[1:]
		res.States++
		for _, r := range alpha {
			sm := n.sm.CloneSM()
			ev := 0
			panicked := ""
			func() {
				defer func() {
					if x := recover(); x != nil {
						panicked = fmt.Sprint(x)
					}
				}()
				resetTicks()
				ev = sm.PushRune(rune(r))
			}()
			res.Transitions++
			if panicked != "" {
				res.Mismatches = append(res.Mismatches, &Mismatch{Path: n.path(r), Kind: "panic", Detail: "PushRune panicked: " + panicked})
				break
			}
			switch ev {
			case EvEOF:
				continue
			case EvError:
				sm.Reset()
			case EvConsume:
			default:
				if d := livelock(sm, r); d != "" {
					res.Mismatches = append(res.Mismatches, &Mismatch{Path: n.path(r), Kind: "livelock", Detail: d})
					continue
				}
			}
			if _, _, stack := sm.Key(); len(stack) > maxDepth {
				res.DepthCapped++
				continue
			}
			k := smKey(sm)
			if seen[k] {
				continue
			}
			seen[k] = true
			queue = append(queue, &pnode{sm: sm, parent: n, via: r})
		}
	}
	return res
}
