// Package cfgref is the harness's independent reference for context-free
// grammars: its own desugaring of ? * + *! @list as documented, sentence
// enumeration up to a length bound, and an Earley recogniser (membership and
// prefix viability). It shares no code with lox.
package cfgref

import (
	"fmt"
	"sort"
	"strings"

	"github.com/dcaiafa/lox/verif/internal/gen"
)

// CFG is a plain context-free grammar. Symbols: 0..NT-1 are terminals,
// NT.. are non-terminals. Terminal numbering is the harness's own:
// terminal i of the gen.Grammar is symbol i+ErrOff; @error is symbol ErrSym.
type CFG struct {
	NT    int // number of terminal symbols (including the @error pseudo terminal at index 0)
	Names []string
	Prods []Prod
	ByLHS [][]int // per non-terminal (index sym-NT) the production indices
	Start int
	// UserRule[sym-NT] is the index of the gen rule, or -1 for helper non-terminals.
	UserRule []int
	// Helper[sym-NT] describes helper non-terminals created by desugaring.
	Helper []HelperInfo

	nullable   []bool
	productive []bool
}

type HelperInfo struct {
	Kind int // gen.Opt, gen.Star, gen.Plus, gen.StarF, gen.List, gen.ListOpt; 0 for user rules
	X    int // element symbol
	Sep  int // separator symbol (lists)
}

type Prod struct {
	LHS int
	RHS []int
	// Origin: user alternative (rule index, alt index) or -1,-1.
	Rule, Alt int
}

const ErrSym = 0 // terminal symbol standing for @error
const TokOff = 1 // gen token i is terminal symbol i+TokOff

func (c *CFG) IsTerm(s int) bool { return s < c.NT }

// FromGrammar desugars g as documented:
//
//	x?  = x | ε          x+ = x+ x | x        x* = x+ | ε      x*! as x*
//	@list(x,s) = @list(x,s) s x | x           @list(x,s)? = @list(x,s) | ε
func FromGrammar(g *gen.Grammar) *CFG {
	c := &CFG{NT: len(g.Toks) + TokOff}
	c.Names = append(c.Names, "@error")
	for _, t := range g.Toks {
		c.Names = append(c.Names, t)
	}
	for i, r := range g.Rules {
		c.Names = append(c.Names, r.Name)
		c.UserRule = append(c.UserRule, i)
		c.Helper = append(c.Helper, HelperInfo{})
	}
	c.Start = c.NT
	sym := func(s gen.Sym) int {
		switch s.K {
		case gen.T:
			return s.I + TokOff
		case gen.N:
			return c.NT + s.I
		default:
			return ErrSym
		}
	}
	helpers := map[string]int{}
	newNT := func(name string, h HelperInfo) (int, bool) {
		if s, ok := helpers[name]; ok {
			return s, false
		}
		s := len(c.Names)
		c.Names = append(c.Names, name)
		c.UserRule = append(c.UserRule, -1)
		c.Helper = append(c.Helper, h)
		helpers[name] = s
		return s, true
	}
	add := func(lhs int, rule, alt int, rhs ...int) {
		c.Prods = append(c.Prods, Prod{LHS: lhs, RHS: append([]int(nil), rhs...), Rule: rule, Alt: alt})
	}
	var plus func(x int) int
	plus = func(x int) int {
		s, fresh := newNT(c.Names[x]+"+", HelperInfo{Kind: gen.Plus, X: x})
		if fresh {
			add(s, -1, -1, s, x)
			add(s, -1, -1, x)
		}
		return s
	}
	list := func(x, sep int) int {
		s, fresh := newNT("@list("+c.Names[x]+","+c.Names[sep]+")", HelperInfo{Kind: gen.List, X: x, Sep: sep})
		if fresh {
			add(s, -1, -1, s, sep, x)
			add(s, -1, -1, x)
		}
		return s
	}
	term := func(t gen.Term) int {
		x := sym(t.X)
		switch t.S {
		case gen.Plain:
			return x
		case gen.Opt:
			s, fresh := newNT(c.Names[x]+"?", HelperInfo{Kind: gen.Opt, X: x})
			if fresh {
				add(s, -1, -1, x)
				add(s, -1, -1)
			}
			return s
		case gen.Plus:
			return plus(x)
		case gen.Star, gen.StarF:
			// x* and x*! denote the same language; they are distinct helper
			// non-terminals because their values differ.
			suffix, kind := "*", gen.Star
			if t.S == gen.StarF {
				suffix, kind = "*!", gen.StarF
			}
			s, fresh := newNT(c.Names[x]+suffix, HelperInfo{Kind: kind, X: x})
			if fresh {
				var p int
				if t.S == gen.StarF {
					// own one-or-more helper for the filtered variant
					ps, pfresh := newNT(c.Names[x]+"+!", HelperInfo{Kind: gen.Plus, X: x})
					if pfresh {
						add(ps, -1, -1, ps, x)
						add(ps, -1, -1, x)
					}
					p = ps
				} else {
					p = plus(x)
				}
				add(s, -1, -1, p)
				add(s, -1, -1)
			}
			return s
		case gen.List:
			return list(x, sym(t.Sep))
		case gen.ListOpt:
			sep := sym(t.Sep)
			l := list(x, sep)
			s, fresh := newNT(c.Names[l]+"?", HelperInfo{Kind: gen.ListOpt, X: x, Sep: sep})
			if fresh {
				add(s, -1, -1, l)
				add(s, -1, -1)
			}
			return s
		}
		panic("bad sugar")
	}
	for ri, r := range g.Rules {
		for ai, a := range r.Alts {
			var rhs []int
			for _, t := range a.Terms {
				rhs = append(rhs, term(t))
			}
			add(c.NT+ri, ri, ai, rhs...)
		}
	}
	c.finish()
	return c
}

func (c *CFG) finish() {
	n := len(c.Names) - c.NT
	c.ByLHS = make([][]int, n)
	for i, p := range c.Prods {
		c.ByLHS[p.LHS-c.NT] = append(c.ByLHS[p.LHS-c.NT], i)
	}
	c.nullable = make([]bool, len(c.Names))
	c.productive = make([]bool, len(c.Names))
	for s := 0; s < c.NT; s++ {
		c.productive[s] = true
	}
	for changed := true; changed; {
		changed = false
		for _, p := range c.Prods {
			if !c.nullable[p.LHS] {
				all := true
				for _, s := range p.RHS {
					if !c.nullable[s] {
						all = false
						break
					}
				}
				if all {
					c.nullable[p.LHS] = true
					changed = true
				}
			}
			if !c.productive[p.LHS] {
				all := true
				for _, s := range p.RHS {
					if !c.productive[s] {
						all = false
						break
					}
				}
				if all {
					c.productive[p.LHS] = true
					changed = true
				}
			}
		}
	}
}

func (c *CFG) Nullable(s int) bool   { return c.nullable[s] }
func (c *CFG) Productive(s int) bool { return c.productive[s] }

// Reachable returns the set of symbols reachable from the start symbol.
func (c *CFG) Reachable() []bool {
	r := make([]bool, len(c.Names))
	r[c.Start] = true
	for changed := true; changed; {
		changed = false
		for _, p := range c.Prods {
			if r[p.LHS] {
				for _, s := range p.RHS {
					if !r[s] {
						r[s] = true
						changed = true
					}
				}
			}
		}
	}
	return r
}

// Reduced reports whether every non-terminal is reachable and productive.
func (c *CFG) Reduced() bool {
	r := c.Reachable()
	for s := c.NT; s < len(c.Names); s++ {
		if !r[s] || !c.productive[s] {
			return false
		}
	}
	return true
}

// ---------------------------------------------------------------------------
// Sentence enumeration up to a length bound. A string is a Go string whose
// bytes are terminal symbols.

// Sent returns, for every symbol, the set of terminal strings of length <= L
// it derives (Kleene iteration on length-truncated languages).
func (c *CFG) Sent(L int) []map[string]struct{} {
	sets := make([]map[string]struct{}, len(c.Names))
	for s := range sets {
		sets[s] = map[string]struct{}{}
		if s < c.NT {
			if L >= 1 {
				sets[s][string([]byte{byte(s)})] = struct{}{}
			}
		}
	}
	for changed := true; changed; {
		changed = false
		for _, p := range c.Prods {
			cur := map[string]struct{}{"": {}}
			for _, s := range p.RHS {
				next := map[string]struct{}{}
				for a := range cur {
					for b := range sets[s] {
						if len(a)+len(b) <= L {
							next[a+b] = struct{}{}
						}
					}
				}
				cur = next
				if len(cur) == 0 {
					break
				}
			}
			dst := sets[p.LHS]
			for w := range cur {
				if _, ok := dst[w]; !ok {
					dst[w] = struct{}{}
					changed = true
				}
			}
		}
	}
	return sets
}

// ---------------------------------------------------------------------------
// Earley recogniser.

type eitem struct {
	prod, dot, origin int
}

// Earley holds the chart for one input; Feed extends it token by token, so
// prefix viability of every prefix falls out of one pass.
type Earley struct {
	c     *CFG
	sets  [][]eitem
	index []map[eitem]struct{}
}

func (c *CFG) NewEarley() *Earley {
	e := &Earley{c: c}
	e.sets = [][]eitem{nil}
	e.index = []map[eitem]struct{}{{}}
	for _, pi := range c.ByLHS[c.Start-c.NT] {
		e.add(0, eitem{pi, 0, 0})
	}
	e.close(0)
	return e
}

func (e *Earley) add(k int, it eitem) {
	if _, ok := e.index[k][it]; ok {
		return
	}
	// Items whose production contains an unproductive symbol can never
	// complete; dropping them gives the valid-prefix property.
	for _, s := range e.c.Prods[it.prod].RHS {
		if !e.c.productive[s] {
			return
		}
	}
	e.index[k][it] = struct{}{}
	e.sets[k] = append(e.sets[k], it)
}

func (e *Earley) close(k int) {
	c := e.c
	for i := 0; i < len(e.sets[k]); i++ {
		it := e.sets[k][i]
		p := c.Prods[it.prod]
		if it.dot < len(p.RHS) {
			s := p.RHS[it.dot]
			if !c.IsTerm(s) {
				for _, pi := range c.ByLHS[s-c.NT] {
					e.add(k, eitem{pi, 0, k})
				}
				if c.nullable[s] {
					e.add(k, eitem{it.prod, it.dot + 1, it.origin})
				}
			}
			continue
		}
		// completion
		for _, parent := range e.sets[it.origin] {
			pp := c.Prods[parent.prod]
			if parent.dot < len(pp.RHS) && pp.RHS[parent.dot] == p.LHS {
				e.add(k, eitem{parent.prod, parent.dot + 1, parent.origin})
			}
		}
	}
}

// Feed scans one terminal; it returns false (and leaves an empty set) if the
// extended input is not a prefix of any sentence.
func (e *Earley) Feed(t int) bool {
	k := len(e.sets)
	e.sets = append(e.sets, nil)
	e.index = append(e.index, map[eitem]struct{}{})
	for _, it := range e.sets[k-1] {
		p := e.c.Prods[it.prod]
		if it.dot < len(p.RHS) && p.RHS[it.dot] == t {
			e.add(k, eitem{it.prod, it.dot + 1, it.origin})
		}
	}
	e.close(k)
	return len(e.sets[k]) > 0
}

// Viable reports whether the input fed so far is a prefix of some sentence.
func (e *Earley) Viable() bool { return len(e.sets[len(e.sets)-1]) > 0 }

// Accepts reports whether the input fed so far is a sentence.
func (e *Earley) Accepts() bool {
	k := len(e.sets) - 1
	for _, it := range e.sets[k] {
		p := e.c.Prods[it.prod]
		if p.LHS == e.c.Start && it.origin == 0 && it.dot == len(p.RHS) {
			return true
		}
	}
	return false
}

// Member reports whether w (terminal symbols) is a sentence.
func (c *CFG) Member(w []int) bool {
	e := c.NewEarley()
	for _, t := range w {
		if !e.Feed(t) {
			return false
		}
	}
	return e.Accepts()
}

// ViableLen returns the length of the longest viable prefix of w, and whether
// w itself is a sentence.
func (c *CFG) ViableLen(w []int) (int, bool) {
	e := c.NewEarley()
	for i, t := range w {
		if !e.Feed(t) {
			return i, false
		}
	}
	return len(w), e.Accepts()
}

// ---------------------------------------------------------------------------
// Derivation trees.

type Tree struct {
	Sym  int
	Prod int // production index, -1 for terminals
	Kids []*Tree
	Tok  int // input index for terminals
}

func (t *Tree) String(c *CFG) string {
	if t.Prod < 0 {
		return fmt.Sprintf("%s@%d", c.Names[t.Sym], t.Tok)
	}
	var ks []string
	for _, k := range t.Kids {
		ks = append(ks, k.String(c))
	}
	return c.Names[t.Sym] + "#" + fmt.Sprint(t.Prod) + "(" + strings.Join(ks, " ") + ")"
}

// Trees enumerates derivation trees of w from the start symbol, up to max
// trees (exhaustive search over splits; intended for short inputs). Cyclic
// derivations (A =>+ A) are cut: a (symbol, span) pair is not re-entered while
// it is being expanded, so only finitely many trees are produced.
func (c *CFG) Trees(w []int, max int) []*Tree {
	type key struct{ s, i, j int }
	active := map[key]bool{}
	var parse func(s, i, j int) []*Tree
	var seq func(rhs []int, i, j int) [][]*Tree
	parse = func(s, i, j int) []*Tree {
		if c.IsTerm(s) {
			if j == i+1 && w[i] == s {
				return []*Tree{{Sym: s, Prod: -1, Tok: i}}
			}
			return nil
		}
		k := key{s, i, j}
		if active[k] {
			return nil
		}
		active[k] = true
		defer delete(active, k)
		var out []*Tree
		for _, pi := range c.ByLHS[s-c.NT] {
			for _, kids := range seq(c.Prods[pi].RHS, i, j) {
				out = append(out, &Tree{Sym: s, Prod: pi, Kids: kids})
				if len(out) >= max {
					return out
				}
			}
		}
		return out
	}
	seq = func(rhs []int, i, j int) [][]*Tree {
		if len(rhs) == 0 {
			if i == j {
				return [][]*Tree{nil}
			}
			return nil
		}
		var out [][]*Tree
		for m := i; m <= j; m++ {
			heads := parse(rhs[0], i, m)
			if len(heads) == 0 {
				continue
			}
			tails := seq(rhs[1:], m, j)
			for _, h := range heads {
				for _, t := range tails {
					out = append(out, append([]*Tree{h}, t...))
					if len(out) >= max {
						return out
					}
				}
			}
		}
		return out
	}
	return parse(c.Start, 0, len(w))
}

// SortedStrings returns the members of a set in (length, lexicographic) order.
func SortedStrings(m map[string]struct{}) []string {
	out := make([]string, 0, len(m))
	for w := range m {
		out = append(out, w)
	}
	sort.Slice(out, func(i, j int) bool {
		if len(out[i]) != len(out[j]) {
			return len(out[i]) < len(out[j])
		}
		return out[i] < out[j]
	})
	return out
}
