// Package mc is the check framework: sharded workers, counters, violations,
// replay files, known findings and evidence files.
package mc

import (
	"bytes"
	"crypto/sha256"
	"encoding/hex"
	"encoding/json"
	"fmt"
	"github.com/dcaiafa/lox/verif/internal/root"
	"os"
	"os/exec"
	"path/filepath"
	"sort"
	"strconv"
	"strings"
	"sync"
	"time"
)

// Violation is one failing case. Case must be enough to re-run it.
type Violation struct {
	Property string          `json:"property"`
	Check    string          `json:"check"` // which check produced it (a property's check may report under another id)
	Kind     string          `json:"kind"`  // short class of failure
	Size     int             `json:"size"`  // for choosing the smallest counterexample
	Case     json.RawMessage `json:"case"`
	Detail   string          `json:"detail"`
	Known    string          `json:"known,omitempty"` // id of the known finding whose predicate explains it
	// Where the worker met the case (stamped by RunWorker): a failure that
	// depends on what the process generated before cannot be reproduced from the
	// case alone; its replay re-runs the shard up to the case.
	Tier    string `json:"tier,omitempty"`
	Shard   int    `json:"shard,omitempty"`
	NShards int    `json:"nshards,omitempty"`
}

// stopAt: set during an in-context replay; Violate panics with stopSignal when
// the wanted violation shows up, so that the shard is not run to its end.
var stopAt func(v *Violation) bool

type stopSignal struct{ v Violation }

// Stats are the counters a worker accumulates; they are summed by the parent.
type Stats struct {
	Evaluations int64            `json:"evaluations"`
	Nontrivial  int64            `json:"distinct_nontrivial"`
	States      int64            `json:"states"`
	Transitions int64            `json:"transitions"`
	Validated   int64            `json:"traces_validated_against_impl"`
	Extra       map[string]int64 `json:"extra"`
	Samples     []any            `json:"samples"`
	Caps        []string         `json:"caps"`
	Notes       []string         `json:"notes"`
	Inconcl     int64            `json:"inconclusive"`
	Violations  []Violation      `json:"violations"`
	HarnessErrs []string         `json:"harness_errors"`
}

func (s *Stats) Add(k string, n int64) {
	if s.Extra == nil {
		s.Extra = map[string]int64{}
	}
	s.Extra[k] += n
}

func (s *Stats) Sample(x any) {
	if len(s.Samples) < 4 {
		s.Samples = append(s.Samples, x)
	}
}

func (s *Stats) Cap(msg string) {
	for _, c := range s.Caps {
		if c == msg {
			return
		}
	}
	s.Caps = append(s.Caps, msg)
}

func (s *Stats) Note(msg string) {
	for _, c := range s.Notes {
		if c == msg {
			return
		}
	}
	if len(s.Notes) < 20 {
		s.Notes = append(s.Notes, msg)
	}
}

func (s *Stats) HarnessError(f string, a ...any) {
	if len(s.HarnessErrs) < 20 {
		s.HarnessErrs = append(s.HarnessErrs, fmt.Sprintf(f, a...))
	}
}

// maxViol bounds the violations a worker keeps (smallest first is decided by
// the parent; a worker keeps the first maxViol per kind).
const maxViolPerKind = 6

func (s *Stats) Violate(v Violation) {
	n := 0
	for _, x := range s.Violations {
		if x.Kind == v.Kind && x.Property == v.Property && x.Known == v.Known {
			n++
		}
	}
	s.Add("violations_seen", 1)
	if n >= maxViolPerKind {
		return
	}
	s.Violations = append(s.Violations, v)
	if stopAt != nil && stopAt(&v) {
		panic(stopSignal{v})
	}
}

// Ctx is what a check's worker sees.
type Ctx struct {
	ID      string
	Tier    string
	Seed    int64
	Shard   int
	NShards int
	Stats   Stats
	Start   time.Time
	Budget  time.Duration     // soft budget; workers may stop early and record a cap
	Flush   func()            // writes the statistics gathered so far (used by watchdogs before exiting)
	Touch   func(what string) // tells a watchdog that a new unit of work started
}

func (c *Ctx) Mine(idx int64) bool { return int(idx%int64(c.NShards)) == c.Shard }
func (c *Ctx) Quick() bool         { return c.Tier != "thorough" }
func (c *Ctx) OverBudget() bool {
	return c.Budget > 0 && time.Since(c.Start) > c.Budget
}

// Check is one registered property check.
type Check struct {
	ID     string
	Level  string // evidence level
	Rule   string // how cases are enumerated / what is non-trivial
	Assume []string
	// Worker explores the shard's part of the space.
	Worker func(c *Ctx)
	// Replay re-runs one case; it returns the violation it reproduces (nil if
	// the case passes).
	Replay func(caseJSON json.RawMessage) *Violation
	// Serial checks run in a single worker (they manage their own parallelism).
	Serial bool
	// After runs in the parent after merging (optional extra, e.g. stage 3).
	After func(c *Ctx)
}

var Registry = map[string]*Check{}

func Register(c *Check) { Registry[c.ID] = c }

// ---------------------------------------------------------------------------
// Known findings.

type Finding struct {
	ID       string `json:"id"`
	Property string `json:"property"`
	Status   string `json:"status"` // "known" or "fixed"
	Commit   string `json:"commit,omitempty"`
	What     string `json:"what"`
	// Predicate documents the model of the defect implemented by the
	// classifier with the same id in the check's code.
	Predicate string `json:"predicate"`
}

func LoadFindings() []Finding {
	b, err := os.ReadFile(root.Path("known_findings.json"))
	if err != nil {
		return nil
	}
	var f struct {
		Findings []Finding `json:"findings"`
	}
	if err := json.Unmarshal(b, &f); err != nil {
		fmt.Fprintf(os.Stderr, "HARNESS-ERROR: known_findings.json: %v\n", err)
		os.Exit(2)
	}
	return f.Findings
}

// ---------------------------------------------------------------------------
// Parent side.

func envInt(name string, def int64) int64 {
	if v := os.Getenv(name); v != "" {
		if n, err := strconv.ParseInt(v, 10, 64); err == nil {
			return n
		}
	}
	return def
}

func merge(dst *Stats, src *Stats) {
	dst.Evaluations += src.Evaluations
	dst.Nontrivial += src.Nontrivial
	dst.States += src.States
	dst.Transitions += src.Transitions
	dst.Validated += src.Validated
	dst.Inconcl += src.Inconcl
	for k, v := range src.Extra {
		dst.Add(k, v)
	}
	for _, s := range src.Samples {
		dst.Sample(s)
	}
	for _, c := range src.Caps {
		dst.Cap(c)
	}
	for _, c := range src.Notes {
		dst.Note(c)
	}
	dst.Violations = append(dst.Violations, src.Violations...)
	dst.HarnessErrs = append(dst.HarnessErrs, src.HarnessErrs...)
}

// RunParent runs check id at tier: spawns workers, merges, replays violations,
// writes evidence, prints VIOLATION / KNOWN-FINDING lines. Returns exit code.
func RunParent(id, tier string) int {
	ck := Registry[id]
	if ck == nil {
		fmt.Fprintf(os.Stderr, "unknown check %s\n", id)
		return 2
	}
	start := time.Now()
	seed := envInt("VERIF_SEED", 0)
	n := int(envInt("VERIF_WORKERS", 16))
	if ck.Serial {
		n = 1
	}
	self, _ := os.Executable()
	tmp, err := os.MkdirTemp(scratchRoot(), "loxmc.parent.")
	if err != nil {
		fmt.Fprintln(os.Stderr, err)
		return 2
	}
	defer os.RemoveAll(tmp)

	var total Stats
	var mu sync.Mutex
	var wg sync.WaitGroup
	failed := false
	for i := 0; i < n; i++ {
		wg.Add(1)
		go func(i int) {
			defer wg.Done()
			out := filepath.Join(tmp, fmt.Sprintf("w%d.json", i))
			cmd := exec.Command(self, "worker", id, tier, fmt.Sprint(i), fmt.Sprint(n), out)
			cmd.Stderr = os.Stderr
			cmd.Stdout = os.Stderr
			cmd.Env = append(os.Environ(), "GOMAXPROCS=1", "GOGC=400")
			if ck.Serial {
				cmd.Env = os.Environ()
			}
			err := cmd.Run()
			mu.Lock()
			defer mu.Unlock()
			if err != nil {
				failed = true
				fmt.Fprintf(os.Stderr, "HARNESS-ERROR: worker %d of %s: %v\n", i, id, err)
				return
			}
			b, err := os.ReadFile(out)
			if err != nil {
				failed = true
				fmt.Fprintf(os.Stderr, "HARNESS-ERROR: worker %d output: %v\n", i, err)
				return
			}
			var st Stats
			if err := json.Unmarshal(b, &st); err != nil {
				failed = true
				fmt.Fprintf(os.Stderr, "HARNESS-ERROR: worker %d output: %v\n", i, err)
				return
			}
			merge(&total, &st)
		}(i)
	}
	wg.Wait()
	if failed {
		return 2
	}
	if ck.After != nil {
		c := &Ctx{ID: id, Tier: tier, Seed: seed, NShards: 1, Start: time.Now()}
		c.Stats = total
		ck.After(c)
		total = c.Stats
	}
	for _, e := range total.HarnessErrs {
		fmt.Fprintf(os.Stderr, "HARNESS-ERROR: %s\n", e)
	}
	if len(total.HarnessErrs) > 0 {
		return 2
	}

	// Classify violations.
	findings := LoadFindings()
	status := map[string]Finding{}
	for _, f := range findings {
		status[f.ID] = f
	}
	sort.SliceStable(total.Violations, func(i, j int) bool {
		a, b := total.Violations[i], total.Violations[j]
		if a.Size != b.Size {
			return a.Size < b.Size
		}
		return string(a.Case) < string(b.Case)
	})
	knownSeen := map[string]int{}
	var real []Violation
	for _, v := range total.Violations {
		if v.Known != "" {
			if f, ok := status[v.Known]; ok && f.Status == "known" && f.Property == v.Property {
				knownSeen[v.Known]++
				continue
			}
		}
		real = append(real, v)
	}
	exit := 0
	// Report at most a handful of real violations per (property, kind), each
	// replayed twice in fresh processes first.
	reported := map[string]int{}
	nviol := 0
	for _, v := range real {
		k := v.Property + "/" + v.Kind
		if reported[k] >= 2 {
			continue
		}
		reported[k]++
		path := WriteReplay(&v)
		ok1, d1 := replayInFreshProcess(self, path)
		ok2, d2 := replayInFreshProcess(self, path)
		// Both replays must fail again, for the same property and with the same
		// kind of failure. (The free text may legitimately differ when the
		// system under test is itself non-deterministic, which is what some
		// properties are about.)
		if !ok1 || !ok2 || replayHead(d1) != replayHead(d2) {
			fmt.Fprintf(os.Stderr, "HARNESS-ERROR: violation did not reproduce identically on replay (%v/%v): %s\n  first: %s\n  second: %s\n", ok1, ok2, path, d1, d2)
			return 2
		}
		fmt.Printf("VIOLATION property=%s replay=%s\n", v.Property, path)
		fmt.Printf("  kind=%s detail=%s\n", v.Kind, oneLine(v.Detail, 400))
		nviol++
		exit = 1
	}
	var kids []string
	for k := range knownSeen {
		kids = append(kids, k)
	}
	sort.Strings(kids)
	for _, k := range kids {
		f := status[k]
		fmt.Printf("KNOWN-FINDING: property=%s %s [%s; %d occurrences explained by its predicate in this run]\n", f.Property, f.What, f.ID, knownSeen[k])
	}

	WriteEvidence(ck, tier, seed, &total, time.Since(start), nviol, knownSeen)
	fmt.Printf("%s %s: evaluations=%d nontrivial=%d states=%d transitions=%d validated=%d violations=%d known=%d wall=%.1fs caps=%d\n",
		id, tier, total.Evaluations, total.Nontrivial, total.States, total.Transitions, total.Validated, nviol, len(knownSeen), time.Since(start).Seconds(), len(total.Caps))
	return exit
}

// replayHead is the "property=... kind=..." part of a replay's output.
func replayHead(s string) string {
	if i := strings.Index(s, " known="); i >= 0 {
		return s[:i]
	}
	return s
}

func oneLine(s string, n int) string {
	s = strings.ReplaceAll(s, "\n", " | ")
	if len(s) > n {
		s = s[:n] + "..."
	}
	return s
}

func replayInFreshProcess(self, path string) (bool, string) {
	cmd := exec.Command(self, "replay", path)
	out, err := cmd.Output()
	if err != nil {
		if ee, ok := err.(*exec.ExitError); ok && ee.ExitCode() == 1 {
			return true, strings.TrimSpace(string(out))
		}
		return false, fmt.Sprintf("error %v: %s", err, out)
	}
	return false, "passed: " + strings.TrimSpace(string(out))
}

func scratchRoot() string {
	if st, err := os.Stat("/dev/shm"); err == nil && st.IsDir() {
		return "/dev/shm"
	}
	return os.TempDir()
}

// WriteReplay stores a violation under /verif/replays/<property>/<hash>.json.
func WriteReplay(v *Violation) string {
	b, _ := json.MarshalIndent(v, "", " ")
	h := sha256.Sum256(b)
	dir := filepath.Join(root.Path("replays"), v.Property)
	os.MkdirAll(dir, 0o777)
	path := filepath.Join(dir, hex.EncodeToString(h[:6])+".json")
	os.WriteFile(path, b, 0o666)
	return path
}

// RunReplay re-runs the case of a replay file. Exit 1 + VIOLATION-DETAIL line
// if it still fails, 0 if it passes.
func RunReplay(path string) int {
	b, err := os.ReadFile(path)
	if err != nil {
		fmt.Fprintln(os.Stderr, err)
		return 2
	}
	var v Violation
	if err := json.Unmarshal(b, &v); err != nil {
		fmt.Fprintln(os.Stderr, err)
		return 2
	}
	ck := Registry[v.Check]
	if ck == nil || ck.Replay == nil {
		fmt.Fprintf(os.Stderr, "no replay for check %q\n", v.Check)
		return 2
	}
	note := ""
	var r *Violation
	if os.Getenv("VERIF_REPLAY_CONTEXT") != "" {
		// second stage (a fresh process of its own, so that nothing was generated before the shard starts)
		r = replayInContext(ck, &v)
		note = " [reproduced by re-running shard " + fmt.Sprint(v.Shard) + "/" + fmt.Sprint(v.NShards) + " up to the case: it passes in a fresh process, so the failure depends on what the process did before]"
	} else {
		r = ck.Replay(v.Case)
		if r == nil && v.NShards > 0 && ck.Worker != nil {
			// The case passes in a fresh process. Re-run the shard the worker met it
			// in, up to the case: the same generations in the same order.
			self, _ := os.Executable()
			cmd := exec.Command(self, "replay", path)
			cmd.Env = append(os.Environ(), "VERIF_REPLAY_CONTEXT=1")
			cmd.Stderr = os.Stderr
			out, err := cmd.Output()
			os.Stdout.Write(out)
			if err != nil {
				if ee, ok := err.(*exec.ExitError); ok {
					return ee.ExitCode()
				}
				return 2
			}
			return 0
		}
	}
	if r == nil {
		fmt.Println("replay: case passes")
		return 0
	}
	fmt.Printf("replay: property=%s kind=%s known=%s detail=%s%s\n", r.Property, r.Kind, r.Known, oneLine(r.Detail, 2000), note)
	return 1
}

func replayInContext(ck *Check, want *Violation) (found *Violation) {
	c := &Ctx{ID: ck.ID, Tier: want.Tier, Seed: envInt("VERIF_SEED", 0), Shard: want.Shard, NShards: want.NShards, Start: time.Now()}
	compact := func(raw json.RawMessage) string {
		var b bytes.Buffer
		if json.Compact(&b, raw) != nil {
			return string(raw)
		}
		return b.String()
	}
	wantCase := compact(want.Case)
	stopAt = func(v *Violation) bool {
		return v.Property == want.Property && v.Kind == want.Kind && compact(v.Case) == wantCase
	}
	defer func() {
		stopAt = nil
		if x := recover(); x != nil {
			if s, ok := x.(stopSignal); ok {
				found = &s.v
				return
			}
			panic(x)
		}
	}()
	ck.Worker(c)
	return nil
}

// RunWorker runs one shard and writes its Stats.
func RunWorker(id, tier string, shard, n int, out string) int {
	ck := Registry[id]
	if ck == nil {
		return 2
	}
	c := &Ctx{ID: id, Tier: tier, Seed: envInt("VERIF_SEED", 0), Shard: shard, NShards: n, Start: time.Now()}
	if b := envInt("VERIF_BUDGET_S", 0); b > 0 {
		c.Budget = time.Duration(b) * time.Second
	}
	flush := func() int {
		for i := range c.Stats.Violations {
			c.Stats.Violations[i].Tier, c.Stats.Violations[i].Shard, c.Stats.Violations[i].NShards = tier, shard, n
		}
		b, err := json.Marshal(&c.Stats)
		if err != nil {
			fmt.Fprintln(os.Stderr, err)
			return 2
		}
		if err := os.WriteFile(out, b, 0o666); err != nil {
			fmt.Fprintln(os.Stderr, err)
			return 2
		}
		return 0
	}
	c.Flush = func() { flush() }
	ck.Worker(c)
	return flush()
}

// ---------------------------------------------------------------------------
// Evidence.

func WriteEvidence(ck *Check, tier string, seed int64, st *Stats, wall time.Duration, nviol int, known map[string]int) {
	cov := map[string]any{
		"evaluations":                   st.Evaluations,
		"distinct_nontrivial":           st.Nontrivial,
		"rule":                          ck.Rule,
		"samples":                       st.Samples,
		"states":                        st.States,
		"transitions":                   st.Transitions,
		"traces_validated_against_impl": st.Validated,
		"exhaustive":                    len(st.Caps) == 0 && st.Inconcl == 0,
		"caps_hit":                      st.Caps,
		"inconclusive_runs":             st.Inconcl,
		"notes":                         st.Notes,
		"known_findings_seen":           known,
	}
	for k, v := range st.Extra {
		cov[k] = v
	}
	if st.Samples == nil {
		cov["samples"] = []any{}
	}
	if tier != "thorough" {
		tier = "quick"
	}
	ev := map[string]any{
		"property_id": ck.ID,
		"tier":        tier,
		"seed":        seed,
		"level":       ck.Level,
		"coverage":    cov,
		"assumptions": ck.Assume,
		"wall_s":      float64(int(wall.Seconds()*10)) / 10,
		"violations":  nviol,
	}
	b, _ := json.MarshalIndent(ev, "", " ")
	os.MkdirAll(root.Path("evidence"), 0o777)
	os.WriteFile(filepath.Join(root.Path("evidence"), ck.ID+".json"), b, 0o666)
}
