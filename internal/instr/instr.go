// Package instr instruments generated Go files with scheduling/tick calls.
package instr

import (
	"bytes"
	"fmt"
	"go/ast"
	"go/format"
	goparser "go/parser"
	gotoken "go/token"
)

// Ticks inserts `_vtick()` at the top of every loop body and (if entries) of
// every function body. It also returns the names of the package-level
// variables declared in the file. Nothing else is changed.
func Ticks(name, src string, entries bool) (out string, vars []string, points int, err error) {
	fset := gotoken.NewFileSet()
	f, perr := goparser.ParseFile(fset, name, src, 0)
	if perr != nil {
		return "", nil, 0, perr
	}
	tick := func() ast.Stmt {
		points++
		return &ast.ExprStmt{X: &ast.CallExpr{Fun: ast.NewIdent("_vtick")}}
	}
	for _, d := range f.Decls {
		switch x := d.(type) {
		case *ast.GenDecl:
			if x.Tok == gotoken.VAR {
				for _, s := range x.Specs {
					for _, n := range s.(*ast.ValueSpec).Names {
						if n.Name != "_" {
							vars = append(vars, n.Name)
						}
					}
				}
			}
		case *ast.FuncDecl:
			if x.Body == nil {
				continue
			}
			ast.Inspect(x.Body, func(n ast.Node) bool {
				switch l := n.(type) {
				case *ast.ForStmt:
					l.Body.List = append([]ast.Stmt{tick()}, l.Body.List...)
				case *ast.RangeStmt:
					l.Body.List = append([]ast.Stmt{tick()}, l.Body.List...)
				}
				return true
			})
			if entries {
				x.Body.List = append([]ast.Stmt{tick()}, x.Body.List...)
			}
		}
	}
	var buf bytes.Buffer
	if err := format.Node(&buf, fset, f); err != nil {
		return "", nil, 0, fmt.Errorf("print %s: %v", name, err)
	}
	return buf.String(), vars, points, nil
}
