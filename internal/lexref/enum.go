package lexref

import "fmt"

// Pool is a list of regular expressions enumerated by size (number of AST
// nodes) over a fixed set of leaves: every expression up to the size bound,
// built with concatenation, alternation and the given cardinalities.
type Pool struct {
	BySize [][]*Rx // BySize[n] = expressions with exactly n nodes (index 0 unused)
	All    []*Rx
}

// StdLeaves are the building blocks of C02's rule sets.
func StdLeaves() []*Rx {
	return []*Rx{
		Lit("a"),
		Lit("b"),
		Lit("ab"),
		Cls(&Class{Items: []ClassItem{Ch('a')}}),
		Cls(&Class{Items: []ClassItem{Ch('a'), Ch('b')}}),
		Cls(&Class{Items: []ClassItem{Range('a', 'c')}}),
		Cls(&Class{Neg: true, Items: []ClassItem{Ch('a')}}),
		Cls(&Class{Items: []ClassItem{Range('a', 'c')}, Sub: &Class{Items: []ClassItem{Ch('b')}}}),
		Dot(),
		// items nested in / overlapping / adjacent to other items of the same class
		Cls(&Class{Items: []ClassItem{Range('a', 'd'), Ch('b')}}),
		Cls(&Class{Items: []ClassItem{Ch('c'), Range('a', 'b'), Range('b', 'd')}}),
		// partial overlap with [a-c], and a literal that starts inside the intersection
		Cls(&Class{Items: []ClassItem{Range('b', 'e')}}),
		Lit("c"),
	}
}

func NewPool(leaves []*Rx, cards []int, maxSize int) *Pool {
	p := &Pool{BySize: make([][]*Rx, maxSize+1)}
	if maxSize >= 1 {
		p.BySize[1] = leaves
	}
	for n := 2; n <= maxSize; n++ {
		var out []*Rx
		for _, x := range p.BySize[n-1] {
			for _, c := range cards {
				out = append(out, Rep(x, c))
			}
		}
		for i := 1; i <= n-2; i++ {
			j := n - 1 - i
			for _, x := range p.BySize[i] {
				for _, y := range p.BySize[j] {
					out = append(out, Cat(x, y))
					if i <= j { // alternation is commutative up to priority inside one rule; keep both orders only when sizes differ
						out = append(out, Alt(x, y))
					}
				}
			}
		}
		p.BySize[n] = out
	}
	for n := 1; n <= maxSize; n++ {
		p.All = append(p.All, p.BySize[n]...)
	}
	return p
}

// RuleSets enumerates lexer specifications with r rules in the default mode:
// rule i is expression e_i of the pool with kind k_i in {token, @frag
// @discard}. Index i decodes by mixed radix; Size() is the raw count.
type RuleSets struct {
	Pools []*Pool // one pool per rule position
	Kinds int     // 2: token / discard fragment; 3: + accumulating fragment
}

func (rs *RuleSets) Size() int64 {
	n := int64(1)
	for _, p := range rs.Pools {
		n *= int64(len(p.All)) * int64(rs.Kinds)
	}
	return n
}

func (rs *RuleSets) Get(idx int64) *Spec {
	s := &Spec{Modes: []Mode{{}}}
	for i := len(rs.Pools) - 1; i >= 0; i-- {
		p := rs.Pools[i]
		k := int(idx % int64(rs.Kinds))
		idx /= int64(rs.Kinds)
		e := p.All[idx%int64(len(p.All))]
		idx /= int64(len(p.All))
		r := Rule{Rx: e}
		if k == 0 {
			r.K = RToken
			r.Name = fmt.Sprintf("T%d", i+1)
		} else if k == 1 {
			r.K = RFrag
			r.Actions = []Action{{K: ADiscard}}
		} else {
			// accumulating fragment: its text is kept for the next rule
			r.K = RFrag
		}
		s.Modes[0].Rules = append([]Rule{r}, s.Modes[0].Rules...)
	}
	return s
}

// MacroShapes is the number of ways MacroSpec uses its macros.
const MacroShapes = 7

// MacroSpec builds specification number idx of the macro family: e1 from
// pool a is the body of @macro MA, e2 from pool b is a second expression, and
// shape says how the macro is used (in two rules, twice in one rule, nested in
// a second macro, under a cardinality, in a fragment, next to a class
// difference). Size: len(a.All) * len(b.All) * MacroShapes.
func MacroSpec(a, b *Pool, idx int64) *Spec {
	shape := int(idx % MacroShapes)
	idx /= MacroShapes
	e2 := b.All[idx%int64(len(b.All))]
	idx /= int64(len(b.All))
	e1 := a.All[idx%int64(len(a.All))]
	s := &Spec{Modes: []Mode{{}}, Macros: []Macro{{Name: "MA", Rx: e1}}}
	ma := Ref("MA")
	tok := func(i int, rx *Rx) Rule { return Rule{K: RToken, Name: fmt.Sprintf("T%d", i), Rx: rx} }
	var rules []Rule
	switch shape {
	case 0: // the macro in two rules
		rules = []Rule{tok(1, ma), tok(2, Cat(ma, e2))}
	case 1: // twice in one rule
		rules = []Rule{tok(1, Cat(ma, ma)), tok(2, e2)}
	case 2: // nested in a second macro, both used
		s.Macros = append(s.Macros, Macro{Name: "MB", Rx: Cat(ma, e2)})
		rules = []Rule{tok(1, Alt(Ref("MB"), ma)), tok(2, e2)}
	case 3: // under cardinalities
		rules = []Rule{tok(1, Cat(Rep(ma, CStar), e2)), tok(2, Rep(ma, CPlus))}
	case 4: // in a discarding fragment and in a token
		rules = []Rule{{K: RFrag, Rx: ma, Actions: []Action{{K: ADiscard}}}, tok(1, Cat(e2, ma))}
	case 5: // an alternative of macros, declared after use of the first
		s.Macros = append(s.Macros, Macro{Name: "MB", Rx: e2})
		rules = []Rule{tok(1, Alt(ma, Ref("MB"))), tok(2, Cat(Ref("MB"), ma))}
	case 6: // optional macro between literals
		rules = []Rule{tok(1, Cat(Lit("a"), Rep(ma, COpt), Lit("b"))), tok(2, e2)}
	}
	s.Modes[0].Rules = rules
	return s
}
