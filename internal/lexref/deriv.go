package lexref

import (
	"fmt"
	"sort"
	"strings"

	"github.com/dcaiafa/lox/verif/internal/ivl"
)

// Compiled is a Spec prepared for reference execution: atoms of all character
// sets, hash-consed regex nodes, per-mode rule tuples.
type Compiled struct {
	Spec  *Spec
	Atoms []ivl.R // partition of [0,Max]
	Modes []*CMode
	// ModeIndex maps a mode name ("" = default) to lox's mode index (names
	// sorted, "$default" first).
	ModeIndex map[string]int
	ByIndex   []*CMode
	TokIndex  map[string]int // token name -> lox terminal index

	nodes  []*node
	intern map[string]int
	dcache map[[2]int]int
	ngLive map[int]bool
	macros map[string]*Rx
	Err    string // compile problem (undefined macro etc.)
}

type CMode struct {
	Name  string
	Index int // lox's mode index
	Rules []Rule
	Init  []int // regex node id per rule
	// NonGreedy[i]: rule i is of the C08 shape; semantic handled by the caller
}

// node kinds
const (
	nEmpty = iota // ∅
	nEps          // ε
	nChars        // set of atoms
	nCat
	nAlt
	nStar
)

type node struct {
	k     int
	atoms []uint64 // nChars: bitset over atoms
	a, b  int      // nCat: a then b; nStar: a
	alts  []int    // nAlt: sorted ids
	null  bool
	ng    bool // nStar of a non-greedy repetition
}

const idEmpty, idEps = 0, 1

func Compile(s *Spec) *Compiled {
	c := &Compiled{Spec: s, intern: map[string]int{}, dcache: map[[2]int]int{}, ngLive: map[int]bool{}, macros: map[string]*Rx{}, ModeIndex: map[string]int{}, TokIndex: map[string]int{}}
	for _, m := range s.Macros {
		c.macros[m.Name] = m.Rx
	}
	// atoms
	var sets []ivl.Set
	var walk func(r *Rx, depth int)
	walk = func(r *Rx, depth int) {
		if depth > 20 {
			c.Err = "macro cycle"
			return
		}
		switch r.K {
		case KLit:
			for _, cp := range r.Lit {
				sets = append(sets, ivl.Set{{Lo: cp, Hi: cp}})
			}
		case KClass:
			sets = append(sets, r.Cls.Set())
		case KRef:
			m, ok := c.macros[r.Ref]
			if !ok {
				c.Err = "undefined macro " + r.Ref
				return
			}
			walk(m, depth+1)
		default:
			for _, k := range r.Kids {
				walk(k, depth)
			}
		}
	}
	for _, m := range s.Modes {
		for _, r := range m.Rules {
			walk(r.Rx, 0)
		}
	}
	c.Atoms = ivl.Atoms(sets)
	// base nodes
	c.nodes = []*node{{k: nEmpty}, {k: nEps, null: true}}
	c.intern["0"] = 0
	c.intern["e"] = 1
	// token numbering: EOF=0, ERROR=1, then declaration order
	for i, t := range s.Tokens() {
		c.TokIndex[t] = i + 2
	}
	// mode indices: sorted by lox's internal name
	var names []string
	for _, m := range s.Modes {
		n := m.Name
		if n == "" {
			n = "$default"
		}
		names = append(names, n)
	}
	sorted := append([]string(nil), names...)
	sort.Strings(sorted)
	c.ByIndex = make([]*CMode, len(sorted))
	for mi, m := range s.Modes {
		cm := &CMode{Name: m.Name, Rules: m.Rules}
		for i, n := range sorted {
			if n == names[mi] {
				cm.Index = i
			}
		}
		c.ModeIndex[m.Name] = cm.Index
		for _, r := range m.Rules {
			cm.Init = append(cm.Init, c.build(r.Rx, 0))
		}
		c.Modes = append(c.Modes, cm)
		c.ByIndex[cm.Index] = cm
	}
	return c
}

func (c *Compiled) mk(key string, n *node) int {
	if id, ok := c.intern[key]; ok {
		return id
	}
	id := len(c.nodes)
	c.nodes = append(c.nodes, n)
	c.intern[key] = id
	return id
}

func (c *Compiled) chars(set ivl.Set) int {
	bits := make([]uint64, (len(c.Atoms)+63)/64)
	any := false
	for i, a := range c.Atoms {
		if set.Has(a.Lo) {
			// atoms never straddle a set boundary
			bits[i/64] |= 1 << uint(i%64)
			any = true
		}
	}
	if !any {
		return idEmpty
	}
	return c.mk(fmt.Sprint("c", bits), &node{k: nChars, atoms: bits})
}

func (c *Compiled) cat(a, b int) int {
	if a == idEmpty || b == idEmpty {
		return idEmpty
	}
	if a == idEps {
		return b
	}
	if b == idEps {
		return a
	}
	// right-associate: (x y) z => x (y z)
	if na := c.nodes[a]; na.k == nCat {
		return c.cat(na.a, c.cat(na.b, b))
	}
	return c.mk(fmt.Sprintf("(%d.%d)", a, b), &node{k: nCat, a: a, b: b, null: c.nodes[a].null && c.nodes[b].null})
}

func (c *Compiled) alt(xs ...int) int {
	set := map[int]bool{}
	var add func(x int)
	add = func(x int) {
		if x == idEmpty {
			return
		}
		if n := c.nodes[x]; n.k == nAlt {
			for _, y := range n.alts {
				add(y)
			}
			return
		}
		set[x] = true
	}
	for _, x := range xs {
		add(x)
	}
	if len(set) == 0 {
		return idEmpty
	}
	ids := make([]int, 0, len(set))
	for x := range set {
		ids = append(ids, x)
	}
	sort.Ints(ids)
	if len(ids) == 1 {
		return ids[0]
	}
	null := false
	for _, x := range ids {
		null = null || c.nodes[x].null
	}
	return c.mk(fmt.Sprint("a", ids), &node{k: nAlt, alts: ids, null: null})
}

func (c *Compiled) star(a int) int {
	if a == idEmpty || a == idEps {
		return idEps
	}
	if c.nodes[a].k == nStar {
		return a
	}
	return c.mk(fmt.Sprintf("*%d", a), &node{k: nStar, a: a, null: true})
}

// starNG is the star of a non-greedy repetition: the same language, but a node
// of its own, so that a derivative shows whether a non-greedy loop is still open.
func (c *Compiled) starNG(a int) int {
	if a == idEmpty || a == idEps {
		return idEps
	}
	return c.mk(fmt.Sprintf("*?%d", a), &node{k: nStar, a: a, null: true, ng: true})
}

// NGLive reports whether the expression still contains an open non-greedy
// repetition: after `[0-9]+? '.'` has been read from `[0-9]+? '.' [0-9]*` it
// does not (what is left is greedy), after `'/*' .*? '*/'` has read "/* */" it
// does (`.` also matched the terminator, the loop goes on in parallel).
func (c *Compiled) NGLive(id int) bool {
	if v, ok := c.ngLive[id]; ok {
		return v
	}
	c.ngLive[id] = false // cycles cannot occur (nodes are a DAG), this is only the memo
	n := c.nodes[id]
	v := false
	switch n.k {
	case nStar:
		v = n.ng || c.NGLive(n.a)
	case nCat:
		v = c.NGLive(n.a) || c.NGLive(n.b)
	case nAlt:
		for _, x := range n.alts {
			if c.NGLive(x) {
				v = true
			}
		}
	}
	c.ngLive[id] = v
	return v
}

func (c *Compiled) build(r *Rx, depth int) int {
	if depth > 20 {
		return idEmpty
	}
	switch r.K {
	case KLit:
		id := idEps
		for i := len(r.Lit) - 1; i >= 0; i-- {
			id = c.cat(c.chars(ivl.Set{{Lo: r.Lit[i], Hi: r.Lit[i]}}), id)
		}
		return id
	case KClass:
		return c.chars(r.Cls.Set())
	case KDot:
		return c.chars(ivl.Set{{Lo: 0, Hi: ivl.Max}})
	case KRef:
		m, ok := c.macros[r.Ref]
		if !ok {
			return idEmpty
		}
		return c.build(m, depth+1)
	case KCat:
		id := idEps
		for i := len(r.Kids) - 1; i >= 0; i-- {
			id = c.cat(c.build(r.Kids[i], depth), id)
		}
		return id
	case KAlt:
		var ids []int
		for _, k := range r.Kids {
			ids = append(ids, c.build(k, depth))
		}
		return c.alt(ids...)
	case KRep:
		x := c.build(r.Kids[0], depth)
		switch r.Card {
		case COne:
			return x
		case COpt:
			return c.alt(x, idEps)
		case CStar:
			return c.star(x)
		case CPlus:
			return c.cat(x, c.star(x))
		case CStarNG:
			return c.starNG(x)
		case CPlusNG:
			return c.cat(x, c.starNG(x))
		}
	}
	panic("bad rx")
}

// Deriv is the Brzozowski derivative of regex id by atom a.
func (c *Compiled) Deriv(id, a int) int {
	if id == idEmpty || id == idEps {
		return idEmpty
	}
	key := [2]int{id, a}
	if d, ok := c.dcache[key]; ok {
		return d
	}
	n := c.nodes[id]
	var d int
	switch n.k {
	case nChars:
		if n.atoms[a/64]&(1<<uint(a%64)) != 0 {
			d = idEps
		} else {
			d = idEmpty
		}
	case nCat:
		d = c.cat(c.Deriv(n.a, a), n.b)
		if c.nodes[n.a].null {
			d = c.alt(d, c.Deriv(n.b, a))
		}
	case nAlt:
		var ids []int
		for _, x := range n.alts {
			ids = append(ids, c.Deriv(x, a))
		}
		d = c.alt(ids...)
	case nStar:
		d = c.cat(c.Deriv(n.a, a), id)
	}
	c.dcache[key] = d
	return d
}

func (c *Compiled) Nullable(id int) bool { return c.nodes[id].null }

// AtomOf returns the atom index containing code point cp.
func (c *Compiled) AtomOf(cp int) int {
	i := sort.Search(len(c.Atoms), func(i int) bool { return c.Atoms[i].Hi >= cp })
	return i
}

// ---------------------------------------------------------------------------
// Reference state of one mode: the tuple of per-rule derivatives.

type RState struct {
	Mode *CMode
	R    []int // regex id per rule
}

func (c *Compiled) InitState(m *CMode) RState {
	return RState{Mode: m, R: append([]int(nil), m.Init...)}
}

func (s RState) Key() string {
	var b strings.Builder
	fmt.Fprintf(&b, "%d:", s.Mode.Index)
	for _, r := range s.R {
		fmt.Fprintf(&b, "%d,", r)
	}
	return b.String()
}

// Viable: some rule can still match an extension (or exactly) of the run.
func (s RState) Viable() bool {
	for _, r := range s.R {
		if r != idEmpty {
			return true
		}
	}
	return false
}

// Step returns the state after consuming atom a.
func (c *Compiled) Step(s RState, a int) RState {
	n := RState{Mode: s.Mode, R: make([]int, len(s.R))}
	for i, r := range s.R {
		n.R[i] = c.Deriv(r, a)
	}
	return n
}

// Winner returns the earliest-declared rule matching exactly the run, or -1.
func (c *Compiled) Winner(s RState) int {
	for i, r := range s.R {
		if c.nodes[r].null {
			return i
		}
	}
	return -1
}

// IsInit reports whether s is the initial state of its mode.
func (s RState) IsInit() bool {
	for i, r := range s.R {
		if r != s.Mode.Init[i] {
			return false
		}
	}
	return true
}

// MatchSeq reports whether the code points w are in (∪ pre)* · (∪ fin), where
// pre and fin are rule indices of mode m: the text of one lexer result that
// ends with a match of one of the fin rules after any number of matches of
// accumulating rules.
func (c *Compiled) MatchSeq(m *CMode, pre, fin []int, w []int) bool {
	var ps, fs []int
	for _, i := range pre {
		ps = append(ps, m.Init[i])
	}
	for _, i := range fin {
		fs = append(fs, m.Init[i])
	}
	id := c.alt(fs...)
	if len(ps) > 0 {
		id = c.cat(c.star(c.alt(ps...)), id)
	}
	for _, cp := range w {
		id = c.Deriv(id, c.AtomOf(cp))
		if id == idEmpty {
			return false
		}
	}
	return c.Nullable(id)
}
