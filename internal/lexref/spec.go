// Package lexref is the harness's model of lox lexer specifications: an AST
// with a .lox writer, and an independent reference semantics (regex
// derivatives over the atoms of the specification's character classes, the
// documented longest-viable-match / earliest-rule / mode-stack discipline).
// It shares no code with lox.
package lexref

import (
	"fmt"
	"strings"

	"github.com/dcaiafa/lox/verif/internal/ivl"
)

// Rx kinds.
const (
	KLit   = iota // Lit: sequence of code points
	KClass        // Class
	KDot          // .
	KCat          // Kids in sequence
	KAlt          // Kids alternatives
	KRep          // Kids[0] with Card
	KRef          // macro reference
)

// Cardinalities.
const (
	COne    = 0
	COpt    = 1 // ?
	CStar   = 2 // *
	CPlus   = 3 // +
	CStarNG = 4 // *?
	CPlusNG = 5 // +?
)

type ClassItem struct{ Lo, Hi int }

// Class is [items], ~[items], or [items]-[sub items] (with optional ~ on each side).
type Class struct {
	Neg   bool
	Items []ClassItem
	Sub   *Class // difference: this - Sub
}

type Rx struct {
	K    int
	Lit  []int
	Cls  *Class
	Kids []*Rx
	Card int
	Ref  string
}

func Lit(s string) *Rx {
	var cps []int
	for _, r := range s {
		cps = append(cps, int(r))
	}
	return &Rx{K: KLit, Lit: cps}
}
func LitCP(cps ...int) *Rx       { return &Rx{K: KLit, Lit: cps} }
func Cls(c *Class) *Rx           { return &Rx{K: KClass, Cls: c} }
func Dot() *Rx                   { return &Rx{K: KDot} }
func Cat(k ...*Rx) *Rx           { return &Rx{K: KCat, Kids: k} }
func Alt(k ...*Rx) *Rx           { return &Rx{K: KAlt, Kids: k} }
func Rep(x *Rx, card int) *Rx    { return &Rx{K: KRep, Kids: []*Rx{x}, Card: card} }
func Ref(name string) *Rx        { return &Rx{K: KRef, Ref: name} }
func Range(lo, hi int) ClassItem { return ClassItem{lo, hi} }
func Ch(c int) ClassItem         { return ClassItem{c, c} }

// Action kinds.
const (
	APush    = 1
	APop     = 2
	ADiscard = 3
	AEmit    = 4
)

type Action struct {
	K   int
	Arg string // mode name ("" = default mode) or token name
}

// Rule kinds.
const (
	RToken = 0
	RFrag  = 1
)

type Rule struct {
	K       int
	Name    string // token name
	Rx      *Rx
	Actions []Action
}

type Macro struct {
	Name string
	Rx   *Rx
}

type Mode struct {
	Name  string // "" = default mode
	Rules []Rule
}

// Spec is the lexer part of a specification. Declaration order matters:
// Order lists the top-level items in textual order.
type Spec struct {
	Modes     []Mode // Modes[0] is the default mode (Name "")
	Macros    []Macro
	Externals []string
	// EmitOnly are token names declared only so that @emit can name them
	// (declared in the default mode as rules that can never match first...):
	// not used; tokens must be rules.
}

// ---------------------------------------------------------------------------
// Writer.

// Raw makes the writer print code points above U+007F verbatim (as UTF-8 text
// in the .lox source) instead of as \u / \U escapes. Set by callers around
// LexerText(); the workers are single-threaded.
var Raw bool

func cpText(c int, inClass bool) string {
	if Raw && c > 0x9F && c != 0xFFFD && !(c >= 0xD800 && c <= 0xDFFF) && c <= 0x10FFFF && c != 0x2028 && c != 0x2029 {
		return string(rune(c))
	}
	switch {
	case c == '\n':
		return `\n`
	case c == '\r':
		return `\r`
	case c == '\t':
		return `\t`
	case c == '\\':
		return `\\`
	case c == '\'' && !inClass:
		return `\'`
	case c == '-' && inClass:
		return `\-`
	case c >= '0' && c <= '9', c >= 'a' && c <= 'z', c >= 'A' && c <= 'Z':
		return string(rune(c))
	case c > 0xFFFF:
		return fmt.Sprintf(`\U%08X`, c)
	default:
		return fmt.Sprintf(`\u%04X`, c)
	}
}

func classText(c *Class) string {
	var b strings.Builder
	if c.Neg {
		b.WriteString("~")
	}
	b.WriteString("[")
	for _, it := range c.Items {
		b.WriteString(cpText(it.Lo, true))
		if it.Hi != it.Lo {
			b.WriteString("-")
			b.WriteString(cpText(it.Hi, true))
		}
	}
	b.WriteString("]")
	if c.Sub != nil {
		b.WriteString("-")
		b.WriteString(classText(c.Sub))
	}
	return b.String()
}

func cardText(c int) string {
	return []string{"", "?", "*", "+", "*?", "+?"}[c]
}

// Text renders a regex in lox syntax. prec: 0 = alternation level, 1 = concatenation level, 2 = term level.
func (r *Rx) text(prec int) string {
	switch r.K {
	case KLit:
		var b strings.Builder
		b.WriteString("'")
		for _, c := range r.Lit {
			b.WriteString(cpText(c, false))
		}
		b.WriteString("'")
		return b.String()
	case KClass:
		return classText(r.Cls)
	case KDot:
		return "."
	case KRef:
		return r.Ref
	case KRep:
		if r.Kids[0].K == KRep {
			// lox has no double postfix operator: group the inner repetition
			return "(" + r.Kids[0].text(0) + ")" + cardText(r.Card)
		}
		return r.Kids[0].text(2) + cardText(r.Card)
	case KCat:
		var p []string
		for _, k := range r.Kids {
			p = append(p, k.text(2))
		}
		s := strings.Join(p, " ")
		if prec >= 2 {
			return "(" + s + ")"
		}
		return s
	case KAlt:
		var p []string
		for _, k := range r.Kids {
			p = append(p, k.text(1))
		}
		s := strings.Join(p, " | ")
		if prec >= 1 {
			return "(" + s + ")"
		}
		return s
	}
	panic("bad rx")
}

func (r *Rx) String() string { return r.text(0) }

func actionText(a Action) string {
	switch a.K {
	case APush:
		return "@push_mode(" + a.Arg + ")"
	case APop:
		return "@pop_mode"
	case ADiscard:
		return "@discard"
	case AEmit:
		return "@emit(" + a.Arg + ")"
	}
	panic("bad action")
}

func (r *Rule) Text() string {
	var b strings.Builder
	if r.K == RToken {
		b.WriteString(r.Name + " = ")
	} else {
		b.WriteString("@frag ")
	}
	b.WriteString(r.Rx.text(0))
	for _, a := range r.Actions {
		b.WriteString(" " + actionText(a))
	}
	return b.String()
}

// LexerText renders the @lexer section. Macros first, then externals, then the
// default mode's rules, then the other modes.
func (s *Spec) LexerText() string {
	var b strings.Builder
	b.WriteString("@lexer\n")
	for _, m := range s.Macros {
		fmt.Fprintf(&b, "@macro %s = %s\n", m.Name, m.Rx.text(0))
	}
	if len(s.Externals) > 0 {
		b.WriteString("@external " + strings.Join(s.Externals, " ") + "\n")
	}
	for mi, m := range s.Modes {
		if mi == 0 {
			for _, r := range m.Rules {
				b.WriteString(r.Text() + "\n")
			}
			continue
		}
		fmt.Fprintf(&b, "@mode %s {\n", m.Name)
		for _, r := range m.Rules {
			b.WriteString("  " + r.Text() + "\n")
		}
		b.WriteString("}\n")
	}
	return b.String()
}

// Tokens lists the token names in declaration order (lox numbers them from 2).
func (s *Spec) Tokens() []string {
	var out []string
	out = append(out, s.Externals...)
	for _, m := range s.Modes {
		for _, r := range m.Rules {
			if r.K == RToken {
				out = append(out, r.Name)
			}
		}
	}
	return out
}

// OneLine renders the spec compactly for messages.
func (s *Spec) OneLine() string {
	var parts []string
	for _, m := range s.Macros {
		parts = append(parts, "@macro "+m.Name+" = "+m.Rx.text(0))
	}
	for mi, m := range s.Modes {
		var rs []string
		for _, r := range m.Rules {
			rs = append(rs, r.Text())
		}
		if mi == 0 {
			parts = append(parts, strings.Join(rs, " ; "))
		} else {
			parts = append(parts, "@mode "+m.Name+" { "+strings.Join(rs, " ; ")+" }")
		}
	}
	return strings.Join(parts, " ;; ")
}

// ---------------------------------------------------------------------------
// Set-theoretic meaning of a class.

func (c *Class) Set() ivl.Set {
	var rs []ivl.R
	for _, it := range c.Items {
		rs = append(rs, ivl.R{Lo: it.Lo, Hi: it.Hi})
	}
	s := ivl.Norm(rs)
	if c.Neg {
		s = ivl.Complement(s)
	}
	if c.Sub != nil {
		s = ivl.Diff(s, c.Sub.Set())
	}
	return s
}
