// Package gen holds the harness's own representation of lox specifications and
// the writers that turn them into .lox text and carrier user files.
package gen

import (
	"fmt"
	"sort"
	"strings"
)

// Symbol kinds.
const (
	T   = 0 // terminal (index into Grammar.Toks)
	N   = 1 // non-terminal (index into Grammar.Rules)
	ERR = 2 // @error
)

type Sym struct {
	K int
	I int
}

// Sugar kinds.
const (
	Plain   = 0
	Opt     = 1 // x?
	Star    = 2 // x*
	Plus    = 3 // x+
	StarF   = 4 // x*!
	List    = 5 // @list(x,sep)
	ListOpt = 6 // @list(x,sep)?
)

type Term struct {
	S   int
	X   Sym
	Sep Sym
}

const (
	NoAssoc = 0
	Left    = 1
	Right   = 2
)

type Alt struct {
	Terms []Term // empty => @empty
	Prec  int    // 0 = no qualifier
	Assoc int
}

type Rule struct {
	Name string
	Alts []Alt
}

type Grammar struct {
	Toks  []string // token names (upper case); literal is lower-cased name unless Lits set
	Lits  []string // optional literal per token
	Rules []Rule   // Rules[0] is @start
	// AliasRefs makes the parser section refer to tokens by their literal
	// ('x') instead of by name (X).
	AliasRefs bool
	// PrecSpelling selects how precedence levels are written (the order of
	// the values is the order of the levels in every spelling):
	// 0 plain 1,2,3..; 1 leading zeros and a step over a power of the octal
	// base (9, 010, 011, 012 ..); 2 wide gaps (1, 20, 300, 4000 ..); 3 and 4
	// steps of three across 2^8 and 2^16.
	PrecSpelling int
	// PadToks unused tokens are declared BEFORE the grammar's own tokens: every
	// terminal the grammar uses gets a number PadToks higher (numbers beyond one
	// machine word of bits, one byte, ..).
	PadToks int `json:"pad_toks,omitempty"`
}

func (g *Grammar) Lit(i int) string {
	if g.Lits != nil && g.Lits[i] != "" {
		return g.Lits[i]
	}
	return strings.ToLower(g.Toks[i])
}

func (g *Grammar) symText(s Sym) string {
	switch s.K {
	case T:
		if g.AliasRefs {
			return "'" + g.Lit(s.I) + "'"
		}
		return g.Toks[s.I]
	case N:
		return g.Rules[s.I].Name
	default:
		return "@error"
	}
}

func (g *Grammar) TermText(t Term) string {
	x := g.symText(t.X)
	switch t.S {
	case Plain:
		return x
	case Opt:
		return x + "?"
	case Star:
		return x + "*"
	case Plus:
		return x + "+"
	case StarF:
		return x + "*!"
	case List:
		return "@list(" + x + ", " + g.symText(t.Sep) + ")"
	case ListOpt:
		return "@list(" + x + ", " + g.symText(t.Sep) + ")?"
	}
	panic("bad sugar")
}

func (g *Grammar) AltText(a Alt) string {
	if len(a.Terms) == 0 {
		return "@empty"
	}
	var parts []string
	for _, t := range a.Terms {
		parts = append(parts, g.TermText(t))
	}
	s := strings.Join(parts, " ")
	if a.Prec > 0 {
		if a.Assoc == Right {
			s += fmt.Sprintf(" @right(%s)", g.PrecText(a.Prec))
		} else {
			s += fmt.Sprintf(" @left(%s)", g.PrecText(a.Prec))
		}
	}
	return s
}

// PrecText is the numeral written for level p.
func (g *Grammar) PrecText(p int) string {
	switch g.PrecSpelling {
	case 1:
		if p == 1 {
			return "9"
		}
		return fmt.Sprintf("0%d", p+8)
	case 2:
		return fmt.Sprint(p) + strings.Repeat("0", p-1)
	case 3:
		// around 2^8: 253, 256, 259, ..
		return fmt.Sprint(250 + 3*p)
	case 4:
		// around 2^16: 65533, 65536, 65539, ..
		return fmt.Sprint(65530 + 3*p)
	}
	return fmt.Sprint(p)
}

// ParserText is the @parser section.
func (g *Grammar) ParserText() string {
	var b strings.Builder
	b.WriteString("@parser\n")
	for i, r := range g.Rules {
		if i == 0 {
			b.WriteString("@start ")
		}
		b.WriteString(r.Name + " = ")
		for j, a := range r.Alts {
			if j > 0 {
				b.WriteString("\n  | ")
			}
			b.WriteString(g.AltText(a))
		}
		b.WriteString("\n")
	}
	return b.String()
}

// LexerText is a minimal @lexer section: one literal token per terminal.
func (g *Grammar) LexerText() string {
	var b strings.Builder
	b.WriteString("@lexer\n")
	for i := 0; i < g.PadToks; i++ {
		fmt.Fprintf(&b, "PAD%d = '#%d#'\n", i, i)
	}
	for i, t := range g.Toks {
		fmt.Fprintf(&b, "%s = '%s'\n", t, g.Lit(i))
	}
	b.WriteString("@frag [ \\n]+ @discard\n")
	return b.String()
}

func (g *Grammar) LoxText() string { return g.LexerText() + "\n" + g.ParserText() }

// One-line rendering for samples and messages.
func (g *Grammar) String() string {
	var rs []string
	for _, r := range g.Rules {
		var as []string
		for _, a := range r.Alts {
			as = append(as, g.AltText(a))
		}
		rs = append(rs, r.Name+" = "+strings.Join(as, " | "))
	}
	return strings.Join(rs, " ; ")
}

// CarrierUserGo writes the user package for carrier runs: a self-contained
// Token, the parser struct and, for every rule, one `any`-typed action method
// per distinct arity (so every production matches exactly one method).
func (g *Grammar) CarrierUserGo(bounds bool) string {
	var b strings.Builder
	b.WriteString("package carrier\n\n")
	b.WriteString("type Token struct {\n\tType int\n\tIdx  int\n}\n\n")
	b.WriteString("func (t Token) Discard() bool { return false }\n\n")
	b.WriteString("// V is the result type of every rule; it has Discard so that rules can be elements of x*!.\ntype V struct{}\n\nfunc (V) Discard() bool { return false }\n\n")
	b.WriteString("type parser struct {\n\tlox\n}\n\n")
	for _, r := range g.Rules {
		ar := map[int]bool{}
		for _, a := range r.Alts {
			ar[len(a.Terms)] = true
		}
		var ks []int
		for k := range ar {
			ks = append(ks, k)
		}
		sort.Ints(ks)
		for _, k := range ks {
			var ps []string
			for i := 0; i < k; i++ {
				ps = append(ps, fmt.Sprintf("a%d", i))
			}
			params := ""
			if k > 0 {
				params = strings.Join(ps, ", ") + " any"
			}
			fmt.Fprintf(&b, "func (p *parser) on_%s__%d(%s) V { return V{} }\n", r.Name, k, params)
		}
	}
	if bounds {
		b.WriteString("\nfunc (p *parser) _onBounds(r any, begin, end Token) {}\n")
	}
	return b.String()
}

// Clone deep-copies g.
func (g *Grammar) Clone() *Grammar {
	c := &Grammar{Toks: append([]string(nil), g.Toks...), AliasRefs: g.AliasRefs, PrecSpelling: g.PrecSpelling, PadToks: g.PadToks}
	if g.Lits != nil {
		c.Lits = append([]string(nil), g.Lits...)
	}
	for _, r := range g.Rules {
		nr := Rule{Name: r.Name}
		for _, a := range r.Alts {
			na := Alt{Prec: a.Prec, Assoc: a.Assoc, Terms: append([]Term(nil), a.Terms...)}
			nr.Alts = append(nr.Alts, na)
		}
		c.Rules = append(c.Rules, nr)
	}
	return c
}

// HasError reports whether any alternative uses @error.
func (g *Grammar) HasError() bool {
	for _, r := range g.Rules {
		for _, a := range r.Alts {
			for _, t := range a.Terms {
				if t.X.K == ERR {
					return true
				}
			}
		}
	}
	return false
}

// HasQualifiers reports whether any alternative carries @left/@right.
func (g *Grammar) HasQualifiers() bool {
	for _, r := range g.Rules {
		for _, a := range r.Alts {
			if a.Prec > 0 {
				return true
			}
		}
	}
	return false
}

// RenameRules renames the rules so that their names sort differently
// relative to the token names (lox orders symbols by name in several places).
// Scheme 1: Ea, Eb, Ec, .. (upper-case initial: before most token names and
// with the start rule first). Scheme 2: zr, yr, xr, .. (name order is the
// reverse of declaration order, so that rule numbers and the numbers of the
// states reached on them run in opposite directions). Scheme 3: ERROR, EOF, Ec, ..
func (g *Grammar) RenameRules(scheme int) {
	switch scheme {
	case 1:
		for i := range g.Rules {
			g.Rules[i].Name = "E" + string(rune('a'+i))
		}
	case 2:
		// name order is the reverse of declaration order
		for i := range g.Rules {
			g.Rules[i].Name = string(rune('z'-i)) + "r"
		}
	case 3:
		// rules named like the built-in terminals (legal: rule names are Go
		// identifiers): wherever symbols are ordered or looked up by name, a
		// rule and a terminal now tie
		for i := range g.Rules {
			switch i {
			case 0:
				g.Rules[i].Name = "ERROR"
			case 1:
				g.Rules[i].Name = "EOF"
			default:
				g.Rules[i].Name = "E" + string(rune('a'+i))
			}
		}
	}
}

// IndirectEmpty returns a copy of g in which every `@empty` alternative of a
// rule r is replaced by a reference to a new rule whose only alternative is
// `@empty`: r keeps its language and stays nullable, but no longer has a
// literally empty production (it is nullable only through another rule).
// Returns nil when g has no `@empty` alternative.
func (g *Grammar) IndirectEmpty() *Grammar {
	c := g.Clone()
	n := len(c.Rules)
	found := false
	for ri := 0; ri < n; ri++ {
		for ai := range c.Rules[ri].Alts {
			if len(c.Rules[ri].Alts[ai].Terms) == 0 {
				found = true
				name := fmt.Sprintf("e%d", len(c.Rules)-n+1)
				c.Rules[ri].Alts[ai].Terms = []Term{{X: Sym{K: N, I: len(c.Rules)}}}
				c.Rules = append(c.Rules, Rule{Name: name, Alts: []Alt{{}}})
			}
		}
	}
	if !found {
		return nil
	}
	return c
}
