package gen

import "fmt"

// Wide combines component grammars (all over the same terminals X, Y, ..)
// under a new start rule with one selector token per component:
//
//	s = K1 a1 | K2 a2 | .. ; <rules of component 1, renamed a1, b1, ..> ; ..
//
// Components that are LALR(1) give an LALR(1) result (the selector separates
// their item sets and every component is followed by EOF only), so the
// reference language is the union of the selector-prefixed component
// languages. The point of the family is scale: more than ten rules, dozens of
// states, two-digit numbers in the emitted tables.
func Wide(comps []*Grammar) *Grammar {
	nt := 0
	for _, c := range comps {
		if len(c.Toks) > nt {
			nt = len(c.Toks)
		}
	}
	g := &Grammar{Toks: append([]string(nil), tokNames[:nt]...)}
	for i := range comps {
		g.Toks = append(g.Toks, fmt.Sprintf("K%d", i+1))
	}
	start := Rule{Name: "s"}
	g.Rules = []Rule{start}
	off := 1
	shift := func(s Sym, off int) Sym {
		if s.K == N {
			s.I += off
		}
		return s
	}
	for ci, c := range comps {
		g.Rules[0].Alts = append(g.Rules[0].Alts, Alt{Terms: []Term{{X: Sym{K: T, I: nt + ci}}, {X: Sym{K: N, I: off}}}})
		for ri, r := range c.Rules {
			nr := Rule{Name: fmt.Sprintf("%c%d", 'a'+ri, ci+1)}
			for _, a := range r.Alts {
				na := Alt{Prec: a.Prec, Assoc: a.Assoc}
				for _, t := range a.Terms {
					na.Terms = append(na.Terms, Term{S: t.S, X: shift(t.X, off), Sep: shift(t.Sep, off)})
				}
				nr.Alts = append(nr.Alts, na)
			}
			g.Rules = append(g.Rules, nr)
		}
		off += len(c.Rules)
	}
	return g
}
