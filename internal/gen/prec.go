package gen

import "fmt"

// ExprSpace enumerates small expression grammars with and without precedence
// qualifiers: rule e (start) with up to MaxE alternatives and, optionally, a
// second rule f with up to MaxF alternatives, drawn from a menu of operator
// shapes over two operator tokens, each with every qualifier option. This is
// the "precedence family" of C04: qualifiers on all / some / none of the
// alternatives, conflicts inside one rule, across rules, reduce/reduce.
type ExprSpace struct {
	MaxE, MaxF int
	menuE      []Alt
	menuF      []Alt
	combosE    [][]int
	combosF    [][]int
}

// tokens: 0=P 1=Q (operators) 2=A (atom) 3=L 4=R (parens)
var exprToks = []string{"P", "Q", "A", "L", "R"}

func NewExprSpace(maxE, maxF int) *ExprSpace {
	s := &ExprSpace{MaxE: maxE, MaxF: maxF}
	e := Sym{K: N, I: 0}
	f := Sym{K: N, I: 1}
	tk := func(i int) Sym { return Sym{K: T, I: i} }
	pl := func(xs ...Sym) []Term {
		var ts []Term
		for _, x := range xs {
			ts = append(ts, Term{X: x})
		}
		return ts
	}
	quals := []struct{ p, a int }{{0, NoAssoc}, {1, Left}, {1, Right}, {2, Left}, {2, Right}}
	for op := 0; op < 2; op++ {
		shapes := [][]Term{
			pl(e, tk(op), e),
			pl(e, tk(op), f),
			pl(tk(op), e),
			pl(e, tk(op)),
		}
		for _, sh := range shapes {
			for _, q := range quals {
				s.menuE = append(s.menuE, Alt{Terms: sh, Prec: q.p, Assoc: q.a})
			}
		}
	}
	s.menuE = append(s.menuE,
		Alt{Terms: pl(tk(2))},
		Alt{Terms: pl(tk(2)), Prec: 1, Assoc: Left},
		Alt{Terms: pl(tk(3), e, tk(4))},
		Alt{Terms: pl(f)},
	)
	for op := 0; op < 2; op++ {
		for _, q := range quals[:3] {
			s.menuF = append(s.menuF, Alt{Terms: pl(f, tk(op), f), Prec: q.p, Assoc: q.a})
			s.menuF = append(s.menuF, Alt{Terms: pl(e, tk(op), tk(2)), Prec: q.p, Assoc: q.a})
			// same right-hand side as e's binary alternative: three actions in one cell
			s.menuF = append(s.menuF, Alt{Terms: pl(e, tk(op), e), Prec: q.p, Assoc: q.a})
		}
	}
	s.menuF = append(s.menuF, Alt{Terms: pl(tk(2))}, Alt{Terms: pl(e)})
	s.combosE = combos(len(s.menuE), 1, maxE)
	s.combosF = append([][]int{nil}, combos(len(s.menuF), 1, maxF)...)
	return s
}

func combos(n, kmin, kmax int) [][]int {
	var out [][]int
	var rec func(start int, cur []int, k int)
	rec = func(start int, cur []int, k int) {
		if len(cur) == k {
			out = append(out, append([]int(nil), cur...))
			return
		}
		for i := start; i < n; i++ {
			rec(i+1, append(cur, i), k)
		}
	}
	for k := kmin; k <= kmax; k++ {
		rec(0, nil, k)
	}
	return out
}

func (s *ExprSpace) Size() int64 { return int64(len(s.combosE)) * int64(len(s.combosF)) }

func (s *ExprSpace) String() string {
	return fmt.Sprintf("Expr(e<=%d alts of %d, f<=%d alts of %d)", s.MaxE, len(s.menuE), s.MaxF, len(s.menuF))
}

// Get returns grammar idx, or nil when it is not well formed (f used but not
// defined, f defined but unreachable).
func (s *ExprSpace) Get(idx int64) *Grammar {
	ce := s.combosE[idx/int64(len(s.combosF))]
	cf := s.combosF[idx%int64(len(s.combosF))]
	g := &Grammar{Toks: exprToks}
	re := Rule{Name: "e"}
	usesF := false
	for _, i := range ce {
		a := s.menuE[i]
		for _, t := range a.Terms {
			if t.X.K == N && t.X.I == 1 {
				usesF = true
			}
		}
		re.Alts = append(re.Alts, a)
	}
	if usesF != (cf != nil) {
		return nil
	}
	g.Rules = append(g.Rules, re)
	if cf != nil {
		rf := Rule{Name: "f"}
		for _, i := range cf {
			rf.Alts = append(rf.Alts, s.menuF[i])
		}
		g.Rules = append(g.Rules, rf)
	}
	return g
}

// ---------------------------------------------------------------------------
// Operator tables for C05.

type OpLevel struct {
	Ops   []int // token indices of this level's operators
	Assoc int   // Left / Right
}

type OpTable struct {
	Levels []OpLevel // Levels[i] has precedence i+1
	Order  int       // 0 ascending, 1 descending, 2 interleaved declaration order
	Extras int       // 0 atoms only, 1 + parenthesised, 2 + parenthesised + unqualified call F L e R
	// Unary: 0 none; 1 a prefix alternative `O1 e` REUSING the first binary
	// operator's token, qualified tighter than every level; 2 the same at level 1.
	Unary      int
	Spelling   int // Grammar.PrecSpelling
	Pad        int // Grammar.PadToks
	UnaryLevel int
	UnaryAssoc int
	NumOps     int
	Grammar    *Grammar
	// token indices
	Atom, LP, RP, Fn int
}

// OpTables enumerates all operator tables: k <= 3 levels, 1-2 operators per
// level, one associativity per level, 3 declaration orders, 3 extras variants.
func OpTables() []*OpTable {
	var out []*OpTable
	for k := 1; k <= 3; k++ {
		// ops per level: 1 or 2 each; assoc per level
		for opsMask := 0; opsMask < 1<<k; opsMask++ {
			for assocMask := 0; assocMask < 1<<k; assocMask++ {
				for order := 0; order < 3; order++ {
					for eu := 0; eu < 5; eu++ {
						// extras 0..2 without a unary operator; then the two unary variants (with parentheses)
						extras, unary := eu, 0
						if eu >= 3 {
							extras, unary = 1, eu-2
						}
						t := &OpTable{Order: order, Extras: extras, Unary: unary}
						// numerals: plain for most; the other spellings ride on the
						// variants with parentheses (declaration orders 0 and 2)
						if eu == 1 && order != 1 {
							t.Spelling = 1 + order/2
						}
						if eu == 0 && order != 1 {
							t.Spelling = 3 + order/2
						}
						next := 0
						for l := 0; l < k; l++ {
							n := 1
							if opsMask&(1<<l) != 0 {
								n = 2
							}
							lv := OpLevel{Assoc: Left}
							if assocMask&(1<<l) != 0 {
								lv.Assoc = Right
							}
							for j := 0; j < n; j++ {
								lv.Ops = append(lv.Ops, next)
								next++
							}
							t.Levels = append(t.Levels, lv)
						}
						t.NumOps = next
						t.build()
						out = append(out, t)
					}
				}
			}
		}
	}
	// the same tables (every 9th) with 61, 70 and 300 unused tokens declared
	// before the operators: the operators' terminal numbers straddle 64, lie
	// beyond it, and beyond 256
	n := len(out)
	for _, pad := range []int{61, 70, 300} {
		for i := 0; i < n; i += 9 {
			c := *out[i]
			c.Pad = pad
			c.build()
			out = append(out, &c)
		}
	}
	return out
}

func (t *OpTable) build() {
	g := &Grammar{PrecSpelling: t.Spelling, PadToks: t.Pad}
	for i := 0; i < t.NumOps; i++ {
		g.Toks = append(g.Toks, fmt.Sprintf("O%d", i+1))
		g.Lits = append(g.Lits, string(rune('+'+0))) // placeholder, fixed below
	}
	lits := []string{"+", "-", "*", "/", "^", "%"}
	for i := 0; i < t.NumOps; i++ {
		g.Lits[i] = lits[i]
	}
	t.Atom = len(g.Toks)
	g.Toks = append(g.Toks, "A")
	g.Lits = append(g.Lits, "a")
	t.LP = len(g.Toks)
	g.Toks = append(g.Toks, "L")
	g.Lits = append(g.Lits, "(")
	t.RP = len(g.Toks)
	g.Toks = append(g.Toks, "R")
	g.Lits = append(g.Lits, ")")
	t.Fn = len(g.Toks)
	g.Toks = append(g.Toks, "F")
	g.Lits = append(g.Lits, "f")
	e := Sym{K: N, I: 0}
	var opAlts []Alt
	for li, lv := range t.Levels {
		for _, op := range lv.Ops {
			opAlts = append(opAlts, Alt{
				Terms: []Term{{X: e}, {X: Sym{K: T, I: op}}, {X: e}},
				Prec:  li + 1, Assoc: lv.Assoc,
			})
		}
	}
	switch t.Order {
	case 1:
		for i, j := 0, len(opAlts)-1; i < j; i, j = i+1, j-1 {
			opAlts[i], opAlts[j] = opAlts[j], opAlts[i]
		}
	case 2:
		// interleave: even positions first, then odd
		var a []Alt
		for i := 0; i < len(opAlts); i += 2 {
			a = append(a, opAlts[i])
		}
		for i := 1; i < len(opAlts); i += 2 {
			a = append(a, opAlts[i])
		}
		opAlts = a
	}
	r := Rule{Name: "e"}
	atom := Alt{Terms: []Term{{X: Sym{K: T, I: t.Atom}}}}
	paren := Alt{Terms: []Term{{X: Sym{K: T, I: t.LP}}, {X: e}, {X: Sym{K: T, I: t.RP}}}}
	call := Alt{Terms: []Term{{X: Sym{K: T, I: t.Fn}}, {X: Sym{K: T, I: t.LP}}, {X: e}, {X: Sym{K: T, I: t.RP}}}}
	if t.Order == 1 {
		// atoms first
		r.Alts = append(r.Alts, atom)
		r.Alts = append(r.Alts, opAlts...)
	} else {
		r.Alts = append(r.Alts, opAlts...)
		r.Alts = append(r.Alts, atom)
	}
	if t.Unary > 0 {
		t.UnaryLevel, t.UnaryAssoc = len(t.Levels)+1, Left
		if t.Unary == 2 {
			t.UnaryLevel, t.UnaryAssoc = 1, t.Levels[0].Assoc
		}
		neg := Alt{Terms: []Term{{X: Sym{K: T, I: 0}}, {X: e}}, Prec: t.UnaryLevel, Assoc: t.UnaryAssoc}
		r.Alts = append(r.Alts, neg)
	}
	if t.Extras >= 1 {
		r.Alts = append(r.Alts, paren)
	}
	if t.Extras >= 2 {
		r.Alts = append(r.Alts, call)
	}
	g.Rules = []Rule{r}
	t.Grammar = g
}

// LevelOf returns the level index and associativity of operator token op.
func (t *OpTable) LevelOf(op int) (int, int) {
	for li, lv := range t.Levels {
		for _, o := range lv.Ops {
			if o == op {
				return li + 1, lv.Assoc
			}
		}
	}
	return 0, 0
}
