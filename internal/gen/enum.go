package gen

import (
	"fmt"
	"sort"
	"strings"
)

// Space describes G(n,t,p,l): n non-terminals, t terminals, at most p
// alternatives per rule, at most l terms per alternative (the empty
// alternative included). Enumeration is by a counter (mixed radix), never
// random; canonical-form filtering removes symmetric variants.
type Space struct {
	N, T, P, L int
	WithErr    bool // @error is an additional symbol usable as a term

	alts   [][]int // every alternative: sequence of symbol codes
	combos [][]int // every rule body: sorted set of alternative indices (size 1..P)
}

var ntNames = []string{"s", "a", "b", "c"}
var tokNames = []string{"X", "Y", "Z", "W"}

func NewSpace(n, t, p, l int, withErr bool) *Space {
	s := &Space{N: n, T: t, P: p, L: l, WithErr: withErr}
	nsym := t + n
	if withErr {
		nsym++
	}
	// alternatives in order of length then lexicographic
	var cur [][]int
	cur = append(cur, nil)
	s.alts = append(s.alts, nil)
	for k := 1; k <= l; k++ {
		var next [][]int
		for _, a := range cur {
			for x := 0; x < nsym; x++ {
				b := append(append([]int(nil), a...), x)
				next = append(next, b)
			}
		}
		s.alts = append(s.alts, next...)
		cur = next
	}
	// combos of alternatives, by size then lexicographic
	na := len(s.alts)
	var rec func(start int, cur []int, k int)
	for k := 1; k <= p; k++ {
		rec = func(start int, cur []int, k int) {
			if len(cur) == k {
				s.combos = append(s.combos, append([]int(nil), cur...))
				return
			}
			for i := start; i < na; i++ {
				rec(i+1, append(cur, i), k)
			}
		}
		rec(0, nil, k)
	}
	return s
}

// Size is the number of raw grammars in the space.
func (s *Space) Size() int64 {
	r := int64(1)
	for i := 0; i < s.N; i++ {
		r *= int64(len(s.combos))
	}
	return r
}

func (s *Space) symOf(code int) Sym {
	switch {
	case code < s.T:
		return Sym{K: T, I: code}
	case code < s.T+s.N:
		return Sym{K: N, I: code - s.T}
	default:
		return Sym{K: ERR}
	}
}

// decode returns the per-rule combo indices of raw grammar idx.
func (s *Space) decode(idx int64) []int {
	out := make([]int, s.N)
	nc := int64(len(s.combos))
	for i := s.N - 1; i >= 0; i-- {
		out[i] = int(idx % nc)
		idx /= nc
	}
	return out
}

// key renders the grammar under a renaming of symbols, with alternatives
// sorted, for canonical-form comparison.
func (s *Space) key(ruleCombos []int, tperm, nperm []int) string {
	var sb strings.Builder
	// rule order after renaming: rule i becomes nperm[i]
	bodies := make([]string, s.N)
	for ri, ci := range ruleCombos {
		var alts []string
		for _, ai := range s.combos[ci] {
			a := s.alts[ai]
			b := make([]byte, len(a))
			for k, code := range a {
				switch {
				case code < s.T:
					b[k] = byte('A' + tperm[code])
				case code < s.T+s.N:
					b[k] = byte('a' + nperm[code-s.T])
				default:
					b[k] = '!'
				}
			}
			alts = append(alts, string(b))
		}
		sort.Strings(alts)
		bodies[nperm[ri]] = strings.Join(alts, "|")
	}
	for _, b := range bodies {
		sb.WriteString(b)
		sb.WriteByte(';')
	}
	return sb.String()
}

func perms(n int) [][]int {
	if n == 0 {
		return [][]int{{}}
	}
	var out [][]int
	var rec func(cur []int, used []bool)
	rec = func(cur []int, used []bool) {
		if len(cur) == n {
			out = append(out, append([]int(nil), cur...))
			return
		}
		for i := 0; i < n; i++ {
			if !used[i] {
				used[i] = true
				rec(append(cur, i), used)
				used[i] = false
			}
		}
	}
	rec(nil, make([]bool, n))
	return out
}

// Get returns raw grammar idx, or nil if it is not the canonical member of its
// symmetry class or is not "reduced" in the cheap syntactic sense used here:
// every terminal 0..k-1 used forms a prefix (no gaps), every non-terminal is
// reachable from the start rule. Productivity is left to the caller (cfgref).
func (s *Space) Get(idx int64) *Grammar {
	rc := s.decode(idx)
	// reachability & terminal usage
	usedT := make([]bool, s.T)
	reach := make([]bool, s.N)
	reach[0] = true
	for changed := true; changed; {
		changed = false
		for ri := range rc {
			if !reach[ri] {
				continue
			}
			for _, ai := range s.combos[rc[ri]] {
				for _, code := range s.alts[ai] {
					if code >= s.T && code < s.T+s.N && !reach[code-s.T] {
						reach[code-s.T] = true
						changed = true
					}
				}
			}
		}
	}
	for ri := range rc {
		if !reach[ri] {
			return nil
		}
		for _, ai := range s.combos[rc[ri]] {
			for _, code := range s.alts[ai] {
				if code < s.T {
					usedT[code] = true
				}
			}
		}
	}
	for i := 1; i < s.T; i++ {
		if usedT[i] && !usedT[i-1] {
			return nil
		}
	}
	// canonical under renaming
	idT := make([]int, s.T)
	for i := range idT {
		idT[i] = i
	}
	idN := make([]int, s.N)
	for i := range idN {
		idN[i] = i
	}
	base := s.key(rc, idT, idN)
	for _, tp := range perms(s.T) {
		for _, np := range perms(s.N - 1) {
			nperm := append([]int{0}, make([]int, s.N-1)...)
			for i, v := range np {
				nperm[i+1] = v + 1
			}
			if s.key(rc, tp, nperm) < base {
				return nil
			}
		}
	}
	return s.build(rc, usedT)
}

func (s *Space) build(rc []int, usedT []bool) *Grammar {
	g := &Grammar{}
	nt := 0
	for i := 0; i < s.T; i++ {
		if usedT[i] {
			nt = i + 1
		}
	}
	if nt == 0 {
		nt = 1 // lox needs at least a lexer section; keep one token
	}
	g.Toks = append(g.Toks, tokNames[:nt]...)
	for ri, ci := range rc {
		r := Rule{Name: ntNames[ri]}
		for _, ai := range s.combos[ci] {
			var a Alt
			for _, code := range s.alts[ai] {
				a.Terms = append(a.Terms, Term{X: s.symOf(code)})
			}
			r.Alts = append(r.Alts, a)
		}
		g.Rules = append(g.Rules, r)
	}
	return g
}

func (s *Space) String() string {
	e := ""
	if s.WithErr {
		e = "+@error"
	}
	return fmt.Sprintf("G(n=%d,t=%d,p=%d,l=%d%s)", s.N, s.T, s.P, s.L, e)
}

// SugarVariants returns every grammar obtained from g by sugaring exactly one
// plain term: x? x* x+ x*! and, for every symbol y of g, @list(x,y) and
// @list(x,y)?.
func SugarVariants(g *Grammar) []*Grammar {
	var out []*Grammar
	var syms []Sym
	for i := range g.Toks {
		syms = append(syms, Sym{K: T, I: i})
	}
	for i := range g.Rules {
		syms = append(syms, Sym{K: N, I: i})
	}
	for ri := range g.Rules {
		for ai := range g.Rules[ri].Alts {
			for ti, t := range g.Rules[ri].Alts[ai].Terms {
				if t.S != Plain || t.X.K == ERR {
					continue
				}
				for _, k := range []int{Opt, Star, Plus, StarF} {
					c := g.Clone()
					c.Rules[ri].Alts[ai].Terms[ti].S = k
					out = append(out, c)
				}
				for _, sep := range syms {
					for _, k := range []int{List, ListOpt} {
						c := g.Clone()
						c.Rules[ri].Alts[ai].Terms[ti].S = k
						c.Rules[ri].Alts[ai].Terms[ti].Sep = sep
						out = append(out, c)
					}
				}
			}
		}
	}
	return out
}

// SugarPairs returns every grammar obtained from g by sugaring exactly two
// plain terms that name the same symbol (the helper rules lox generates for
// them are found by name, so these are the terms whose helpers can be shared
// or confused): each of the two gets any of x? x* x+ x*! @list(x,t) @list(x,t)?
// with t any token of g.
func SugarPairs(g *Grammar) []*Grammar {
	type pos struct{ r, a, t int }
	var ps []pos
	for ri := range g.Rules {
		for ai := range g.Rules[ri].Alts {
			for ti, t := range g.Rules[ri].Alts[ai].Terms {
				if t.S == Plain && t.X.K != ERR {
					ps = append(ps, pos{ri, ai, ti})
				}
			}
		}
	}
	type sugar struct {
		k   int
		sep Sym
	}
	var kinds []sugar
	for _, k := range []int{Opt, Star, Plus, StarF} {
		kinds = append(kinds, sugar{k: k})
	}
	for i := range g.Toks {
		kinds = append(kinds, sugar{List, Sym{K: T, I: i}}, sugar{ListOpt, Sym{K: T, I: i}})
	}
	var out []*Grammar
	for i := 0; i < len(ps); i++ {
		for j := i + 1; j < len(ps); j++ {
			a, b := ps[i], ps[j]
			if g.Rules[a.r].Alts[a.a].Terms[a.t].X != g.Rules[b.r].Alts[b.a].Terms[b.t].X {
				continue
			}
			for _, ka := range kinds {
				for _, kb := range kinds {
					c := g.Clone()
					c.Rules[a.r].Alts[a.a].Terms[a.t].S = ka.k
					c.Rules[a.r].Alts[a.a].Terms[a.t].Sep = ka.sep
					c.Rules[b.r].Alts[b.a].Terms[b.t].S = kb.k
					c.Rules[b.r].Alts[b.a].Terms[b.t].Sep = kb.sep
					out = append(out, c)
				}
			}
		}
	}
	return out
}
