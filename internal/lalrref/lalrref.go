// Package lalrref is the harness's independent reference LALR(1) construction:
// textbook canonical LR(1) item sets (closure/goto with fix-point FIRST),
// merged by LR(0) core, actions per (state, terminal), then the documented
// precedence rule. It shares no code with lox.
package lalrref

import (
	"fmt"
	"sort"
	"strings"

	"github.com/dcaiafa/lox/verif/internal/cfgref"
	"github.com/dcaiafa/lox/verif/internal/gen"
)

const (
	Shift  = 0
	Reduce = 1
	Accept = 2
)

type Action struct {
	Kind int
	Prod int // reduce: production index in the augmented grammar (0 = S')
	To   int // shift: target state
}

func (a Action) String() string {
	switch a.Kind {
	case Shift:
		return fmt.Sprintf("shift %d", a.To)
	case Reduce:
		return fmt.Sprintf("reduce #%d", a.Prod)
	}
	return "accept"
}

type lrItem struct {
	prod, dot int
}

type State struct {
	Core    []lrItem
	LA      map[lrItem]uint64 // lookahead masks over terminals; bit EOFBit = EOF
	Trans   map[int]int       // symbol -> state
	Actions map[int][]Action  // terminal (EOF = T.EOF) -> remaining actions after precedence
	// Settled records conflicts settled by precedence: terminal -> explanation.
	Settled map[int]string
}

type Prod struct {
	LHS   int
	RHS   []int
	Prec  int
	Assoc int
	Rule  string // name of lhs
}

// Table is the reference automaton over the augmented grammar: production 0 is
// S' -> start. Terminal symbols are those of cfgref (0 = @error, 1.. tokens);
// the end marker is the action-map key EOFKey.
type Table struct {
	C      *cfgref.CFG
	Prods  []Prod
	States []*State
	Unres  []string // unresolved conflicts (state, terminal, actions)
	OutDom []string // situations the documented rule does not define (mixed prec among shift prods, mixed assoc on one level)
	first  []uint64
	null   []bool
	byLHS  map[int][]int
	sprime int
}

func (t *Table) HasConflicts() bool { return len(t.Unres) > 0 }

// Build constructs the reference table for g.
func Build(g *gen.Grammar) *Table {
	c := cfgref.FromGrammar(g)
	t := &Table{C: c, byLHS: map[int][]int{}}
	// Augmented grammar. Symbols: cfgref symbols, plus S' = len(Names), EOF terminal = -1 handled via bit.
	t.sprime = len(c.Names)
	t.Prods = append(t.Prods, Prod{LHS: t.sprime, RHS: []int{c.Start}, Rule: "S'"})
	for _, p := range c.Prods {
		np := Prod{LHS: p.LHS, RHS: p.RHS, Rule: c.Names[p.LHS]}
		if p.Rule >= 0 {
			a := g.Rules[p.Rule].Alts[p.Alt]
			np.Prec, np.Assoc = a.Prec, a.Assoc
		}
		t.Prods = append(t.Prods, np)
	}
	for i, p := range t.Prods {
		t.byLHS[p.LHS] = append(t.byLHS[p.LHS], i)
	}
	t.computeFirst()
	t.construct()
	return t
}

// EOFBit is the lookahead bit of the end marker.
const EOFBit = 63

func (t *Table) isTerm(s int) bool { return s < t.C.NT }

func (t *Table) computeFirst() {
	n := len(t.C.Names) + 1
	t.first = make([]uint64, n)
	t.null = make([]bool, n)
	for s := 0; s < t.C.NT; s++ {
		t.first[s] = 1 << uint(s)
	}
	for changed := true; changed; {
		changed = false
		for _, p := range t.Prods {
			allNull := true
			f := t.first[p.LHS]
			for _, s := range p.RHS {
				f |= t.first[s]
				if !t.null[s] {
					allNull = false
					break
				}
			}
			if f != t.first[p.LHS] {
				t.first[p.LHS] = f
				changed = true
			}
			if allNull && !t.null[p.LHS] {
				t.null[p.LHS] = true
				changed = true
			}
		}
	}
}

// firstOf returns FIRST(beta la).
func (t *Table) firstOf(beta []int, la uint64) uint64 {
	var f uint64
	for _, s := range beta {
		f |= t.first[s]
		if !t.null[s] {
			return f
		}
	}
	return f | la
}

type lr1set map[lrItem]uint64

func (t *Table) closure(s lr1set) {
	work := make([]lrItem, 0, len(s))
	for it := range s {
		work = append(work, it)
	}
	for len(work) > 0 {
		it := work[len(work)-1]
		work = work[:len(work)-1]
		p := t.Prods[it.prod]
		if it.dot >= len(p.RHS) {
			continue
		}
		B := p.RHS[it.dot]
		if t.isTerm(B) {
			continue
		}
		la := t.firstOf(p.RHS[it.dot+1:], s[it])
		if la == 0 {
			// FIRST(beta a) is empty (beta contains a non-terminal that derives
			// no terminal string): the textbook closure adds no item.
			continue
		}
		for _, pi := range t.byLHS[B] {
			ni := lrItem{pi, 0}
			old := s[ni]
			if _, ok := s[ni]; !ok || old|la != old {
				s[ni] = old | la
				work = append(work, ni)
			}
		}
	}
}

func keyOf(s lr1set, withLA bool) string {
	its := make([]lrItem, 0, len(s))
	for it := range s {
		its = append(its, it)
	}
	sort.Slice(its, func(i, j int) bool {
		if its[i].prod != its[j].prod {
			return its[i].prod < its[j].prod
		}
		return its[i].dot < its[j].dot
	})
	var b strings.Builder
	for _, it := range its {
		if withLA {
			fmt.Fprintf(&b, "%d.%d:%x;", it.prod, it.dot, s[it])
		} else {
			fmt.Fprintf(&b, "%d.%d;", it.prod, it.dot)
		}
	}
	return b.String()
}

func (t *Table) construct() {
	// Canonical LR(1) collection.
	start := lr1set{lrItem{0, 0}: 1 << EOFBit}
	t.closure(start)
	type cstate struct {
		set   lr1set
		trans map[int]int
	}
	var canon []*cstate
	index := map[string]int{}
	add := func(s lr1set) int {
		k := keyOf(s, true)
		if i, ok := index[k]; ok {
			return i
		}
		index[k] = len(canon)
		canon = append(canon, &cstate{set: s, trans: map[int]int{}})
		return len(canon) - 1
	}
	add(start)
	for i := 0; i < len(canon); i++ {
		cs := canon[i]
		// group items by next symbol
		next := map[int]lr1set{}
		for it, la := range cs.set {
			p := t.Prods[it.prod]
			if it.dot < len(p.RHS) {
				x := p.RHS[it.dot]
				if next[x] == nil {
					next[x] = lr1set{}
				}
				next[x][lrItem{it.prod, it.dot + 1}] |= la
			}
		}
		syms := make([]int, 0, len(next))
		for x := range next {
			syms = append(syms, x)
		}
		sort.Ints(syms)
		for _, x := range syms {
			s := next[x]
			t.closure(s)
			cs.trans[x] = add(s)
		}
	}
	// Merge by LR(0) core.
	coreIdx := map[string]int{}
	mapTo := make([]int, len(canon))
	for i, cs := range canon {
		k := keyOf(cs.set, false)
		j, ok := coreIdx[k]
		if !ok {
			j = len(t.States)
			coreIdx[k] = j
			st := &State{LA: map[lrItem]uint64{}, Trans: map[int]int{}, Actions: map[int][]Action{}, Settled: map[int]string{}}
			for it := range cs.set {
				st.Core = append(st.Core, it)
			}
			sort.Slice(st.Core, func(a, b int) bool {
				if st.Core[a].prod != st.Core[b].prod {
					return st.Core[a].prod < st.Core[b].prod
				}
				return st.Core[a].dot < st.Core[b].dot
			})
			t.States = append(t.States, st)
		}
		mapTo[i] = j
		for it, la := range cs.set {
			t.States[j].LA[it] |= la
		}
	}
	for i, cs := range canon {
		for x, to := range cs.trans {
			j := mapTo[i]
			if old, ok := t.States[j].Trans[x]; ok && old != mapTo[to] {
				panic("lalrref: merged states disagree on a transition (cannot happen: same core => same goto core)")
			}
			t.States[j].Trans[x] = mapTo[to]
		}
	}
	// Actions.
	for si, st := range t.States {
		shiftProds := map[int][]int{} // terminal -> prods wanting the shift
		for _, it := range st.Core {
			p := t.Prods[it.prod]
			if it.dot < len(p.RHS) {
				x := p.RHS[it.dot]
				if t.isTerm(x) {
					shiftProds[x] = append(shiftProds[x], it.prod)
				}
				continue
			}
			la := st.LA[it]
			for b := 0; b < 64; b++ {
				if la&(1<<uint(b)) == 0 {
					continue
				}
				term := b
				if b == EOFBit {
					term = t.eofSym()
				}
				if it.prod == 0 {
					st.Actions[term] = append(st.Actions[term], Action{Kind: Accept})
				} else {
					st.Actions[term] = append(st.Actions[term], Action{Kind: Reduce, Prod: it.prod})
				}
			}
		}
		for x, prods := range shiftProds {
			_ = prods
			st.Actions[x] = append(st.Actions[x], Action{Kind: Shift, To: st.Trans[x]})
		}
		// Precedence.
		terms := make([]int, 0, len(st.Actions))
		for x := range st.Actions {
			terms = append(terms, x)
		}
		sort.Ints(terms)
		for _, x := range terms {
			acts := st.Actions[x]
			if len(acts) < 2 {
				continue
			}
			res, note, outdom := t.resolve(acts, shiftProds[x])
			if outdom != "" {
				t.OutDom = append(t.OutDom, fmt.Sprintf("state %d on %s: %s", si, t.TermName(x), outdom))
			}
			if res != nil {
				st.Actions[x] = []Action{*res}
				st.Settled[x] = note
				continue
			}
			var as []string
			for _, a := range acts {
				as = append(as, a.String())
			}
			sort.Strings(as)
			t.Unres = append(t.Unres, fmt.Sprintf("state %d on %s: %s", si, t.TermName(x), strings.Join(as, " / ")))
		}
	}
}

// eofSym is the action-map key of the end marker.
func (t *Table) eofSym() int { return -1 }

const EOFKey = -1

func (t *Table) TermName(x int) string {
	if x == EOFKey {
		return "EOF"
	}
	return t.C.Names[x]
}

// resolve applies the documented precedence rule to the actions of one
// (state, terminal): only a shift/reduce pair is ever settled, and only when
// every production wanting the shift and the reducing production belong to
// one rule and all carry qualifiers. Higher level wins; on equal level @left
// reduces and @right shifts.
func (t *Table) resolve(acts []Action, shiftProds []int) (*Action, string, string) {
	if len(acts) != 2 {
		return nil, "", ""
	}
	var sh, rd *Action
	for i := range acts {
		switch acts[i].Kind {
		case Shift:
			sh = &acts[i]
		case Reduce:
			rd = &acts[i]
		}
	}
	if sh == nil || rd == nil {
		return nil, "", ""
	}
	rp := t.Prods[rd.Prod]
	if rp.Prec <= 0 {
		return nil, "", ""
	}
	shPrec, shAssoc := 0, 0
	mixedPrec, mixedAssoc := false, false
	for i, pi := range shiftProds {
		p := t.Prods[pi]
		if p.LHS != rp.LHS || p.Prec <= 0 {
			return nil, "", ""
		}
		if i == 0 {
			shPrec, shAssoc = p.Prec, p.Assoc
		} else {
			if p.Prec != shPrec {
				mixedPrec = true
			}
			if p.Assoc != shAssoc {
				mixedAssoc = true
			}
		}
	}
	if mixedPrec {
		return nil, "", "productions wanting the shift carry different levels (the documented rule does not say which applies)"
	}
	switch {
	case shPrec > rp.Prec:
		return sh, "shift wins: higher level", ""
	case shPrec < rp.Prec:
		return rd, "reduce wins: higher level", ""
	}
	if mixedAssoc || shAssoc != rp.Assoc {
		// one level declared with both associativities
		a := rd
		if rp.Assoc == gen.Right {
			a = sh
		}
		return a, "equal level, mixed associativity", "one level carries both @left and @right (outside the documented rule)"
	}
	if rp.Assoc == gen.Right {
		return sh, "equal level @right: shift", ""
	}
	return rd, "equal level @left: reduce", ""
}

// ProdString renders production i.
func (t *Table) ProdString(i int) string {
	p := t.Prods[i]
	var rhs []string
	for _, s := range p.RHS {
		rhs = append(rhs, t.C.Names[s])
	}
	if len(rhs) == 0 {
		rhs = []string{"ε"}
	}
	return p.Rule + " = " + strings.Join(rhs, " ")
}

// ProdKey identifies a production by rule name and term names (the same key
// can be computed from lox's grammar object).
func (t *Table) ProdKey(i int) string {
	p := t.Prods[i]
	var rhs []string
	for _, s := range p.RHS {
		rhs = append(rhs, t.C.Names[s])
	}
	return p.Rule + " = " + strings.Join(rhs, " ")
}
