// Package fromast translates lox's own AST of a specification (as produced by
// lox's front-end parser) into the harness's lexref.Spec, so that real-world
// specifications (lox's own parser.lox, the bundled examples) can be checked
// against the reference semantics. Only the *syntax tree* is taken from lox;
// the meaning (derivatives, longest match, modes) is the harness's.
package fromast

import (
	"fmt"

	"github.com/dcaiafa/lox/internal/ast"
	"github.com/dcaiafa/lox/verif/internal/lexref"
)

func Spec(units []*ast.Unit) (*lexref.Spec, error) {
	s := &lexref.Spec{Modes: []lexref.Mode{{}}}
	modeIdx := map[string]int{"": 0}
	var err error
	var addRule func(mode string, st ast.Statement)
	addRule = func(mode string, st ast.Statement) {
		mi, ok := modeIdx[mode]
		if !ok {
			mi = len(s.Modes)
			modeIdx[mode] = mi
			s.Modes = append(s.Modes, lexref.Mode{Name: mode})
		}
		switch r := st.(type) {
		case *ast.TokenRule:
			rx, e := expr(r.Expr)
			if e != nil {
				err = e
			}
			s.Modes[mi].Rules = append(s.Modes[mi].Rules, lexref.Rule{K: lexref.RToken, Name: r.Name, Rx: rx, Actions: actions(r.Actions)})
		case *ast.FragRule:
			rx, e := expr(r.Expr)
			if e != nil {
				err = e
			}
			s.Modes[mi].Rules = append(s.Modes[mi].Rules, lexref.Rule{K: lexref.RFrag, Rx: rx, Actions: actions(r.Actions)})
		case *ast.MacroRule:
			rx, e := expr(r.Expr)
			if e != nil {
				err = e
			}
			s.Macros = append(s.Macros, lexref.Macro{Name: r.Name, Rx: rx})
		case *ast.ExternalRule:
			for _, n := range r.Names {
				s.Externals = append(s.Externals, n.Name)
			}
		case *ast.Mode:
			for _, x := range r.Rules {
				addRule(r.Name, x)
			}
		}
	}
	for _, u := range units {
		for _, st := range u.Statements {
			addRule("", st)
		}
	}
	return s, err
}

func actions(as []ast.Action) []lexref.Action {
	var out []lexref.Action
	for _, a := range as {
		switch x := a.(type) {
		case *ast.ActionDiscard:
			out = append(out, lexref.Action{K: lexref.ADiscard})
		case *ast.ActionPushMode:
			m := x.Mode
			if m == ast.DefaultModeName {
				m = ""
			}
			out = append(out, lexref.Action{K: lexref.APush, Arg: m})
		case *ast.ActionPopMode:
			out = append(out, lexref.Action{K: lexref.APop})
		case *ast.ActionEmit:
			out = append(out, lexref.Action{K: lexref.AEmit, Arg: x.Name})
		}
	}
	return out
}

func expr(e *ast.LexerExpr) (*lexref.Rx, error) {
	var alts []*lexref.Rx
	for _, f := range e.Factors {
		var seq []*lexref.Rx
		for _, tc := range f.Terms {
			t, err := term(tc.Term)
			if err != nil {
				return nil, err
			}
			card := map[ast.Card]int{ast.One: lexref.COne, ast.ZeroOrOne: lexref.COpt, ast.ZeroOrMore: lexref.CStar, ast.ZeroOrMoreNG: lexref.CStarNG, ast.OneOrMore: lexref.CPlus, ast.OneOrMoreNG: lexref.CPlusNG}[tc.Card]
			if card != lexref.COne {
				t = lexref.Rep(t, card)
			}
			seq = append(seq, t)
		}
		if len(seq) == 1 {
			alts = append(alts, seq[0])
		} else {
			alts = append(alts, lexref.Cat(seq...))
		}
	}
	if len(alts) == 1 {
		return alts[0], nil
	}
	return lexref.Alt(alts...), nil
}

func class(c ast.CharClassExpr) (*lexref.Class, error) {
	switch x := c.(type) {
	case *ast.CharClass:
		cl := &lexref.Class{Neg: x.Neg}
		for _, it := range x.CharClassItems {
			cl.Items = append(cl.Items, lexref.ClassItem{Lo: int(it.From), Hi: int(it.To)})
		}
		return cl, nil
	case *ast.CharClassBinaryExpr:
		l, err := class(x.Left)
		if err != nil {
			return nil, err
		}
		r, err := class(x.Right)
		if err != nil {
			return nil, err
		}
		if x.Op != ast.CharClassBinaryExprSub || l.Sub != nil || r.Sub != nil {
			return nil, fmt.Errorf("unsupported class expression shape")
		}
		l.Sub = r
		return l, nil
	}
	return nil, fmt.Errorf("unknown class expression %T", c)
}

func term(t ast.LexerTerm) (*lexref.Rx, error) {
	switch x := t.(type) {
	case *ast.LexerTermLiteral:
		return lexref.Lit(x.Literal), nil
	case *ast.LexerTermRef:
		return lexref.Ref(x.Ref), nil
	case *ast.LexerTermCharClass:
		c, err := class(x.Expr)
		if err != nil {
			return nil, err
		}
		return lexref.Cls(c), nil
	case *ast.LexerExpr:
		return expr(x)
	}
	return nil, fmt.Errorf("unknown lexer term %T", t)
}
