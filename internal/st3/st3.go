// Package st3 is "stage 3": unmodified generated packages are written to a
// scratch module under /dev/shm together with a main program, compiled with
// the real Go toolchain, run, and their JSON output read back.
package st3

import (
	"bytes"
	"fmt"
	"os"
	"os/exec"
	"path/filepath"
	"sort"
	"strings"
	"time"

	"github.com/dcaiafa/lox/verif/internal/pipe"
)

type Pkg struct {
	Name  string            // package (and directory) name
	Files map[string]string // file name -> content (user files and generated files)
}

type Result struct {
	Stdout   []byte
	Stderr   string
	BuildErr string // non-empty: go build failed (compiler output)
	RunErr   string
	// Stopped: the program was killed by the safety net (why); its output is partial.
	Stopped string
}

// Run builds one program out of pkgs and mainSrc and runs it. race adds -race.
// RunLimit and MemLimit bound a compiled program (see Run).
var (
	RunLimit       = 15 * time.Minute
	MemLimit int64 = 6 << 30
)

func rssOf(pid int) int64 {
	b, err := os.ReadFile(fmt.Sprintf("/proc/%d/statm", pid))
	if err != nil {
		return 0
	}
	f := strings.Fields(string(b))
	if len(f) < 2 {
		return 0
	}
	var pages int64
	fmt.Sscan(f[1], &pages)
	return pages * int64(os.Getpagesize())
}

func Run(tag string, pkgs []Pkg, mainSrc string, race bool, env []string) *Result {
	root, err := os.MkdirTemp(pipe.ScratchRoot(), "loxmc.st3."+tag+".")
	if err != nil {
		return &Result{BuildErr: err.Error()}
	}
	defer os.RemoveAll(root)
	must := func(err error) {
		if err != nil {
			panic(err)
		}
	}
	must(os.WriteFile(filepath.Join(root, "go.mod"), []byte("module example.com/st3\n\ngo 1.23\n"), 0o666))
	for _, p := range pkgs {
		d := filepath.Join(root, p.Name)
		must(os.MkdirAll(d, 0o777))
		var names []string
		for n := range p.Files {
			names = append(names, n)
		}
		sort.Strings(names)
		for _, n := range names {
			must(os.WriteFile(filepath.Join(d, n), []byte(p.Files[n]), 0o666))
		}
	}
	must(os.WriteFile(filepath.Join(root, "main.go"), []byte(mainSrc), 0o666))
	res := &Result{}
	args := []string{"build", "-o", "prog"}
	if race {
		args = append(args, "-race")
	}
	args = append(args, ".")
	cmd := exec.Command("go", args...)
	cmd.Dir = root
	cmd.Env = append(os.Environ(), "GOFLAGS=-mod=mod", "GOPROXY=off", "GOSUMDB=off", "GOTOOLCHAIN=local")
	var out bytes.Buffer
	cmd.Stdout, cmd.Stderr = &out, &out
	if err := cmd.Run(); err != nil {
		res.BuildErr = strings.ReplaceAll(out.String(), root+"/", "")
		if res.BuildErr == "" {
			res.BuildErr = err.Error()
		}
		return res
	}
	run := exec.Command(filepath.Join(root, "prog"))
	run.Dir = root
	run.Env = append(os.Environ(), env...)
	var so, se bytes.Buffer
	run.Stdout, run.Stderr = &so, &se
	// Safety net, not an oracle: a compiled program that runs away (generated
	// code that never terminates, or that allocates without end) is stopped
	// after RunLimit of wall clock or at MemLimit of resident memory; the caller
	// sees Stopped and must not read a verdict out of it.
	if err := run.Start(); err != nil {
		res.RunErr = fmt.Sprintf("%v", err)
		return res
	}
	done := make(chan error, 1)
	go func() { done <- run.Wait() }()
	deadline := time.After(RunLimit)
	tick := time.NewTicker(time.Second)
	defer tick.Stop()
	var werr error
wait:
	for {
		select {
		case werr = <-done:
			break wait
		case <-deadline:
			res.Stopped = fmt.Sprintf("still running after %v", RunLimit)
			run.Process.Kill()
			werr = <-done
			break wait
		case <-tick.C:
			if rss := rssOf(run.Process.Pid); rss > MemLimit {
				res.Stopped = fmt.Sprintf("resident memory reached %d MB", rss>>20)
				run.Process.Kill()
				werr = <-done
				break wait
			}
		}
	}
	if werr != nil {
		res.RunErr = fmt.Sprintf("%v", werr)
	}
	res.Stdout = so.Bytes()
	res.Stderr = strings.ReplaceAll(se.String(), root+"/", "")
	return res
}

// BuildOnly compiles pkgs (no main) with `go build ./...` and `go vet`-free;
// it returns the compiler output ("" = success).
func BuildOnly(tag string, pkgs []Pkg) string {
	root, err := os.MkdirTemp(pipe.ScratchRoot(), "loxmc.st3b."+tag+".")
	if err != nil {
		return err.Error()
	}
	defer os.RemoveAll(root)
	os.WriteFile(filepath.Join(root, "go.mod"), []byte("module example.com/st3\n\ngo 1.23\n"), 0o666)
	for _, p := range pkgs {
		d := filepath.Join(root, p.Name)
		os.MkdirAll(d, 0o777)
		for n, t := range p.Files {
			os.WriteFile(filepath.Join(d, n), []byte(t), 0o666)
		}
	}
	cmd := exec.Command("go", "build", "./...")
	cmd.Dir = root
	cmd.Env = append(os.Environ(), "GOFLAGS=-mod=mod", "GOPROXY=off", "GOSUMDB=off", "GOTOOLCHAIN=local")
	var out bytes.Buffer
	cmd.Stdout, cmd.Stderr = &out, &out
	if err := cmd.Run(); err != nil {
		s := strings.ReplaceAll(out.String(), root+"/", "")
		if s == "" {
			s = err.Error()
		}
		return s
	}
	return ""
}
