// Package st3 is "stage 3": unmodified generated packages are written to a
// scratch module under /dev/shm together with a main program, compiled with
// the real Go toolchain, run, and their JSON output read back.
package st3

import (
	"bytes"
	"fmt"
	"os"
	"os/exec"
	"path/filepath"
	"sort"
	"strings"

	"github.com/dcaiafa/lox/verif/internal/pipe"
)

type Pkg struct {
	Name  string            // package (and directory) name
	Files map[string]string // file name -> content (user files and generated files)
}

type Result struct {
	Stdout   []byte
	Stderr   string
	BuildErr string // non-empty: go build failed (compiler output)
	RunErr   string
}

// Run builds one program out of pkgs and mainSrc and runs it. race adds -race.
func Run(tag string, pkgs []Pkg, mainSrc string, race bool, env []string) *Result {
	root, err := os.MkdirTemp(pipe.ScratchRoot(), "loxmc.st3."+tag+".")
	if err != nil {
		return &Result{BuildErr: err.Error()}
	}
	defer os.RemoveAll(root)
	must := func(err error) {
		if err != nil {
			panic(err)
		}
	}
	must(os.WriteFile(filepath.Join(root, "go.mod"), []byte("module example.com/st3\n\ngo 1.23\n"), 0o666))
	for _, p := range pkgs {
		d := filepath.Join(root, p.Name)
		must(os.MkdirAll(d, 0o777))
		var names []string
		for n := range p.Files {
			names = append(names, n)
		}
		sort.Strings(names)
		for _, n := range names {
			must(os.WriteFile(filepath.Join(d, n), []byte(p.Files[n]), 0o666))
		}
	}
	must(os.WriteFile(filepath.Join(root, "main.go"), []byte(mainSrc), 0o666))
	res := &Result{}
	args := []string{"build", "-o", "prog"}
	if race {
		args = append(args, "-race")
	}
	args = append(args, ".")
	cmd := exec.Command("go", args...)
	cmd.Dir = root
	cmd.Env = append(os.Environ(), "GOFLAGS=-mod=mod", "GOPROXY=off", "GOSUMDB=off", "GOTOOLCHAIN=local")
	var out bytes.Buffer
	cmd.Stdout, cmd.Stderr = &out, &out
	if err := cmd.Run(); err != nil {
		res.BuildErr = strings.ReplaceAll(out.String(), root+"/", "")
		if res.BuildErr == "" {
			res.BuildErr = err.Error()
		}
		return res
	}
	run := exec.Command(filepath.Join(root, "prog"))
	run.Dir = root
	run.Env = append(os.Environ(), env...)
	var so, se bytes.Buffer
	run.Stdout, run.Stderr = &so, &se
	if err := run.Run(); err != nil {
		res.RunErr = fmt.Sprintf("%v", err)
	}
	res.Stdout = so.Bytes()
	res.Stderr = strings.ReplaceAll(se.String(), root+"/", "")
	return res
}

// BuildOnly compiles pkgs (no main) with `go build ./...` and `go vet`-free;
// it returns the compiler output ("" = success).
func BuildOnly(tag string, pkgs []Pkg) string {
	root, err := os.MkdirTemp(pipe.ScratchRoot(), "loxmc.st3b."+tag+".")
	if err != nil {
		return err.Error()
	}
	defer os.RemoveAll(root)
	os.WriteFile(filepath.Join(root, "go.mod"), []byte("module example.com/st3\n\ngo 1.23\n"), 0o666)
	for _, p := range pkgs {
		d := filepath.Join(root, p.Name)
		os.MkdirAll(d, 0o777)
		for n, t := range p.Files {
			os.WriteFile(filepath.Join(d, n), []byte(t), 0o666)
		}
	}
	cmd := exec.Command("go", "build", "./...")
	cmd.Dir = root
	cmd.Env = append(os.Environ(), "GOFLAGS=-mod=mod", "GOPROXY=off", "GOSUMDB=off", "GOTOOLCHAIN=local")
	var out bytes.Buffer
	cmd.Stdout, cmd.Stderr = &out, &out
	if err := cmd.Run(); err != nil {
		s := strings.ReplaceAll(out.String(), root+"/", "")
		if s == "" {
			s = err.Error()
		}
		return s
	}
	return ""
}
