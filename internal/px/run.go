package px

import (
	"fmt"
	"regexp"
	"runtime/debug"
	"strings"

	"github.com/dcaiafa/lox/verif/internal/ctypes"
)

// Outcome of one parse on the carrier.
type Outcome struct {
	OK       bool
	Events   []ctypes.Ev
	Reads    int
	Steps    int    // iterations of parse()'s main loop
	Panic    string // generated code panicked
	Hang     string // proven non-termination (exact criterion met), with explanation
	HangKind string // "recover-inner-loop", "cycle", "cycle-after-recover", "pumping"
	Incon    bool   // step budget exceeded without meeting an exact criterion
}

type abortSentinel struct{}

// Runner runs parses on one carrier, counting distinct configurations.
type Runner struct {
	C        *ctypes.Carrier
	NStates  int // number of LALR states of the installed tables (for the _recover bound)
	Configs  map[uint64]struct{}
	Steps    int64
	siteMain int
	siteRec  []int // sites inside _recover: outer, stack loop, inner
	// ActHook, if non-nil, is installed for the run.
	ActHook func(p ctypes.Parser, n *ctypes.Node)
	// NilRes, if non-nil, selects the productions whose generic action returns nil.
	NilRes func(prod int32) bool
	// ResKind, if non-nil, chooses what the generic action returns (see the carrier harness).
	ResKind func(prod int32) int
	suspend bool
}

const fastBudget = 3000   // main-loop + recover ticks before switching to diagnosis
const diagBudget = 200000 // ticks in diagnosis mode before giving up (inconclusive)

func NewRunner(c *ctypes.Carrier) *Runner {
	r := &Runner{C: c, Configs: map[uint64]struct{}{}, siteMain: -1}
	for i, n := range c.SiteNames {
		switch {
		case n == "parse:loop0":
			r.siteMain = i
		case strings.HasPrefix(n, "_recover:loop"):
			r.siteRec = append(r.siteRec, i)
		}
	}
	if r.siteMain < 0 {
		panic("carrier has no parse:loop0 site; template changed shape")
	}
	return r
}

func (r *Runner) ResetCounts() {
	r.Configs = map[uint64]struct{}{}
	r.Steps = 0
}

func hashCfg(stack []int32, la, qla int, laErr bool, pos int) uint64 {
	h := uint64(1469598103934665603)
	mix := func(x uint64) {
		h ^= x
		h *= 1099511628211
	}
	for _, s := range stack {
		mix(uint64(uint32(s)) + 1)
	}
	mix(0xffff)
	mix(uint64(int64(la)) + 7)
	mix(uint64(int64(qla)) + 11)
	if laErr {
		mix(3)
	}
	mix(uint64(pos) + 13)
	return h
}

// Run parses toks (lox terminal indices). It never hangs: non-termination is
// decided by exact criteria (see DESIGN 2.4) in a second, diagnosing run.
func (r *Runner) Run(toks []int) *Outcome {
	out := r.run(toks, false)
	if out.Incon {
		// Re-run with full bookkeeping to decide exactly.
		out = r.run(toks, true)
	}
	return out
}

type cfgRec struct {
	key    string
	height int
}

func (r *Runner) run(toks []int, diagnose bool) (out *Outcome) {
	out = &Outcome{}
	p := r.C.NewParser()
	lex := &ctypes.SliceLexer{Toks: toks}
	ticks := 0
	var stackBuf []int32

	// diagnosis state
	seen := map[string]int{} // config key at main loop -> tick index
	var hist []cfgRec        // (top-key, height) at every main-loop tick
	var minSince []int       // running min height between main-loop ticks (incl. recover ticks)
	innerRun := 0            // consecutive ticks of the innermost _recover loop
	lastReads := 0

	innermost := -1
	isRec := map[int]bool{}
	if len(r.siteRec) > 0 {
		innermost = r.siteRec[len(r.siteRec)-1]
		for _, s := range r.siteRec {
			isRec[s] = true
		}
	}

	r.C.SetActHook(r.ActHook)
	r.C.SetNilRes(r.NilRes)
	r.C.SetResKind(r.ResKind)
	r.C.SetTick(func(site int) {
		if r.suspend {
			return // a nested parse (RunNested) is not this run's subject
		}
		ticks++
		if site == r.siteMain {
			out.Steps++
			r.Steps++
			stackBuf = p.AppendStack(stackBuf[:0])
			h := hashCfg(stackBuf, p.La(), p.Qla(), p.LaIsErr(), lex.Pos)
			r.Configs[h] = struct{}{}
		}
		if !diagnose {
			if ticks > fastBudget {
				out.Incon = true
				panic(abortSentinel{})
			}
			return
		}
		// --- diagnosis mode ---
		if lex.Reads != lastReads {
			// a token was read: configurations before it cannot recur
			lastReads = lex.Reads
			if lex.Pos < len(toks) || lex.Reads <= len(toks)+1 {
				seen = map[string]int{}
				hist = hist[:0]
				minSince = minSince[:0]
			}
		}
		if site == innermost {
			innerRun++
			if r.NStates > 0 && innerRun > r.NStates+2 {
				out.HangKind = "recover-inner-loop"
				out.Hang = fmt.Sprintf("_recover's innermost loop ran %d consecutive iterations with %d parser states: its only state is the local `state`, a deterministic function of itself, so a value repeated (cycle)", innerRun, r.NStates)
				panic(abortSentinel{})
			}
		} else if site == r.siteMain || isRec[site] {
			// ticks of helper loops (_Find) do not leave the innermost loop
			innerRun = 0
		}
		h := p.StackLen()
		for i := range minSince {
			if h < minSince[i] {
				minSince[i] = h
			}
		}
		if site == r.siteMain {
			stackBuf = p.AppendStack(stackBuf[:0])
			full := fmt.Sprint(stackBuf, p.La(), p.Qla(), p.LaIsErr(), lex.Pos, lex.Reads > len(toks))
			if _, ok := seen[full]; ok {
				out.HangKind = "cycle"
				if p.La() == 1 && p.Qla() >= 0 {
					// the repeated point is right after a successful _recover
					out.HangKind = "cycle-after-recover"
				}
				out.Hang = "parser configuration (state stack, lookahead, queued lookahead, input position) repeated at the top of parse()'s loop without consuming input: deterministic cycle; config=" + full
				panic(abortSentinel{})
			}
			seen[full] = ticks
			top := fmt.Sprint(stackBuf[len(stackBuf)-1], p.La(), p.Qla(), p.LaIsErr(), lex.Pos)
			if len(hist) < 5000 {
				for i := range hist {
					if hist[i].key == top && hist[i].height < h && minSince[i] >= hist[i].height {
						out.HangKind = "pumping"
						out.Hang = fmt.Sprintf("pumping: (top state, lookahead, queued lookahead, input position)=%s recurred with stack height %d > %d and the stack never dipped below %d in between: the same moves repeat forever", top, h, hist[i].height, hist[i].height)
						panic(abortSentinel{})
					}
				}
				hist = append(hist, cfgRec{top, h})
				minSince = append(minSince, h)
			}
		}
		if ticks > diagBudget {
			out.Incon = true
			panic(abortSentinel{})
		}
	})
	defer func() {
		r.C.SetTick(nil)
		r.C.SetActHook(nil)
		r.C.SetNilRes(nil)
		r.C.SetResKind(nil)
		out.Reads = lex.Reads
		out.Events = p.Events()
		if x := recover(); x != nil {
			if _, ok := x.(abortSentinel); ok {
				return
			}
			out.Panic = fmt.Sprintf("%v\n%s", x, trimStack(string(debug.Stack())))
		}
	}()
	out.OK = p.Run(lex)
	out.Incon = false
	return out
}

// RunNested parses toks; the action of its k-th reduction (0-based), before it
// returns, parses inner with a second parser value of the same package - what
// an include-style action does. It returns the outcome of the outer parse and
// the verdict and events of the inner one (ran = false if the outer parse had
// fewer than k+1 reductions).
func (r *Runner) RunNested(toks []int, k int, inner []int) (out *Outcome, ran, innerOK bool, innerEvents []ctypes.Ev) {
	n := 0
	saved := r.ActHook
	r.ActHook = func(p ctypes.Parser, nd *ctypes.Node) {
		if r.suspend {
			return
		}
		if n == k {
			r.suspend = true
			defer func() { r.suspend = false }()
			p2 := r.C.NewParser()
			ran = true
			innerOK = p2.Run(&ctypes.SliceLexer{Toks: inner})
			innerEvents = p2.Events()
		}
		n++
	}
	defer func() { r.ActHook = saved; r.suspend = false }()
	out = r.Run(toks)
	return
}

func trimStack(s string) string {
	lines := strings.Split(s, "\n")
	var keep []string
	for _, l := range lines {
		if strings.Contains(l, "carrier") || strings.Contains(l, "panic") {
			keep = append(keep, strings.TrimSpace(l))
		}
		if len(keep) > 12 {
			break
		}
	}
	return hexRe.ReplaceAllString(strings.Join(keep, " <- "), "0x?")
}

var hexRe = regexp.MustCompile(`0x[0-9a-f]+|goroutine \d+`)
