package px

import "fmt"

// DecodeRows reads a row-compressed table by its documented layout: an index
// vector with one entry per state (absolute offset of the state's row, or -1),
// followed by rows of the form [length, cells...]. State 0 always has a row
// and rows are appended in state order, so the index vector's length is the
// offset stored for state 0.
func DecodeRows[E int32 | uint32](arr []E) ([][]E, error) {
	if len(arr) == 0 {
		return nil, fmt.Errorf("empty table")
	}
	n := int(int32(arr[0]))
	if n <= 0 || n > len(arr) {
		return nil, fmt.Errorf("index vector length %d out of range (table has %d cells)", n, len(arr))
	}
	rows := make([][]E, n)
	for i := 0; i < n; i++ {
		off := int(int32(arr[i]))
		if off == -1 {
			continue
		}
		if off < n || off >= len(arr) {
			return nil, fmt.Errorf("state %d: row offset %d outside the row area [%d,%d)", i, off, n, len(arr))
		}
		l := int(arr[off])
		if off+1+l > len(arr) {
			return nil, fmt.Errorf("state %d: row at %d with length %d overruns the table (%d cells)", i, off, l, len(arr))
		}
		rows[i] = arr[off+1 : off+1+l]
	}
	return rows, nil
}
