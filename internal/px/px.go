// Package px ("parser explorer") binds an enumerated grammar to the carrier:
// it runs the real pipeline, checks textual conformance of the generated files
// with the carrier's runtime text, reads the tables back and installs them.
package px

import (
	"fmt"
	"github.com/dcaiafa/lox/verif/internal/root"
	"os"
	"path/filepath"
	"sort"
	"strings"

	"github.com/dcaiafa/lox/internal/parsergen/lr1"
	"github.com/dcaiafa/lox/verif/internal/cfgref"
	"github.com/dcaiafa/lox/verif/internal/ctypes"
	"github.com/dcaiafa/lox/verif/internal/gen"
	"github.com/dcaiafa/lox/verif/internal/pipe"
	cb "github.com/dcaiafa/lox/verif/work/carrier/b"
	cnb "github.com/dcaiafa/lox/verif/work/carrier/nb"
)

var NB = cnb.Carrier
var B = cb.Carrier

var CarrierDir = root.Path("work", "carrier")

type origParts struct {
	base, lexer, parser *pipe.GenParts
}

var orig = map[string]*origParts{}

func loadOrig(c *ctypes.Carrier) *origParts {
	if o, ok := orig[c.Name]; ok {
		return o
	}
	rd := func(n string) string {
		b, err := os.ReadFile(filepath.Join(CarrierDir, c.Name, "orig", n))
		if err != nil {
			panic(err)
		}
		return string(b)
	}
	o := &origParts{}
	var err error
	if o.base, err = pipe.BaseParts(rd("base.gen.go.txt")); err != nil {
		panic(err)
	}
	if o.lexer, err = pipe.LexerParts(rd("lexer.gen.go.txt")); err != nil {
		panic(err)
	}
	if o.parser, err = pipe.ParserParts(rd("parser.gen.go.txt")); err != nil {
		panic(err)
	}
	orig[c.Name] = o
	return o
}

// Status of Build.
const (
	Accepted  = "accepted"
	Conflicts = "conflicts"
	Rejected  = "rejected" // refused with some other diagnostic
	Panicked  = "panicked" // generator panicked
	Broken    = "broken"   // ok but files missing / unparsable / nonconforming (harness-level problem)
)

// Built is a grammar run through the real pipeline.
type Built struct {
	G       *gen.Grammar
	Res     *pipe.Result
	Status  string
	Problem string // for Broken

	Rules, TermCounts, Actions, Goto []int32
	LexModes                         [][]uint32
	Extra                            map[string][]int64 // tables a refactored template declares besides the known ones

	// From the lr1.Grammar the tables were emitted from.
	ProdRule   []string   // production index -> rule name
	ProdTerms  [][]string // production index -> term names
	ProdHasErr []bool
	ProdErrAt  [][]bool // production index -> term position -> the term is the @error terminal (by identity: a rule may be NAMED ERROR)
	RuleNames  []string // rule index -> name
	TermNames  []string // terminal index -> name
}

// Spec returns the pipeline input for g.
func Spec(g *gen.Grammar, bounds bool) *pipe.Spec {
	return &pipe.Spec{
		Lox: map[string]string{"g.lox": g.LoxText()},
		Go:  map[string]string{"user.go": g.CarrierUserGo(bounds)},
	}
}

func toI32(xs []int64) []int32 {
	out := make([]int32, len(xs))
	for i, x := range xs {
		out[i] = int32(x)
	}
	return out
}

func toU32(xs []int64) []uint32 {
	out := make([]uint32, len(xs))
	for i, x := range xs {
		out[i] = uint32(x)
	}
	return out
}

// Build runs the pipeline for g and, if accepted, checks conformance with the
// carrier and extracts tables.
func Build(ws *pipe.Workspace, g *gen.Grammar, c *ctypes.Carrier) *Built {
	return BuildSpec(ws, g, Spec(g, c.HasBounds), c)
}

func BuildSpec(ws *pipe.Workspace, g *gen.Grammar, spec *pipe.Spec, c *ctypes.Carrier) *Built {
	b := &Built{G: g}
	Pad = g.PadToks
	b.Res = ws.RunFast(spec, nil)
	r := b.Res
	switch {
	case r.Panic != "":
		b.Status = Panicked
		return b
	case !r.OK:
		if r.Stage == "ParseLox" && strings.Contains(r.Diag, "grammar has conflicts") {
			b.Status = Conflicts
		} else {
			b.Status = Rejected
		}
		return b
	}
	b.Status = Accepted
	if err := b.extract(c); err != nil {
		b.Status = Broken
		b.Problem = err.Error()
	}
	return b
}

func (b *Built) extract(c *ctypes.Carrier) error {
	o := loadOrig(c)
	r := b.Res
	if r.Base == "" || r.Lexer == "" || r.Parser == "" {
		return fmt.Errorf("lox reported success but a generated file is missing")
	}
	pp, err := pipe.ParserParts(r.Parser)
	if err != nil {
		return err
	}
	if pp.Skeleton != o.parser.Skeleton {
		return fmt.Errorf("parser.gen.go runtime text differs from carrier (template became grammar dependent?): %s", pipe.FirstDiff(pp.Skeleton, o.parser.Skeleton))
	}
	lp, err := pipe.LexerParts(r.Lexer)
	if err != nil {
		return err
	}
	if lp.Skeleton != o.lexer.Skeleton {
		return fmt.Errorf("lexer.gen.go runtime text differs from carrier: %s", pipe.FirstDiff(lp.Skeleton, o.lexer.Skeleton))
	}
	bp, err := pipe.BaseParts(r.Base)
	if err != nil {
		return err
	}
	if bp.Skeleton != o.base.Skeleton {
		return fmt.Errorf("base.gen.go runtime text differs from carrier: %s", pipe.FirstDiff(bp.Skeleton, o.base.Skeleton))
	}
	for _, n := range []string{"_rules", "_termCounts", "_actions", "_goto"} {
		if _, ok := pp.Tables[n]; !ok {
			return fmt.Errorf("table %s not found in parser.gen.go", n)
		}
	}
	b.Extra = map[string][]int64{}
	for _, n := range pp.ExtraTables() {
		b.Extra[n] = pp.Tables[n]
	}
	b.Rules = toI32(pp.Tables["_rules"])
	b.TermCounts = toI32(pp.Tables["_termCounts"])
	b.Actions = toI32(pp.Tables["_actions"])
	b.Goto = toI32(pp.Tables["_goto"])
	nm := 0
	for _, n := range lp.Order {
		if n != "_lexerModes" {
			nm++
		}
	}
	b.LexModes = make([][]uint32, nm)
	for i := 0; i < nm; i++ {
		t, ok := lp.Tables[fmt.Sprintf("_lexerMode%d", i)]
		if !ok {
			return fmt.Errorf("_lexerMode%d not found", i)
		}
		b.LexModes[i] = toU32(t)
	}
	if cnt := lp.Tables["_lexerModes"]; len(cnt) != 1 || int(cnt[0]) != nm {
		return fmt.Errorf("_lexerModes has %v entries, %d mode tables", cnt, nm)
	}
	for _, n := range lp.ExtraTables() {
		b.Extra[n] = lp.Tables[n]
	}
	if got, want := fmt.Sprint(sortedKeys(b.Extra)), fmt.Sprint(sortedStrings(c.ExtraTables)); got != want {
		return fmt.Errorf("generated files declare the extra tables %s, the carrier built from the same templates %s", got, want)
	}
	b.fromGrammar(r.V.Grammar)
	if len(b.Rules) != len(b.ProdRule) || len(b.TermCounts) != len(b.ProdRule) {
		return fmt.Errorf("_rules/_termCounts length %d/%d, grammar has %d productions", len(b.Rules), len(b.TermCounts), len(b.ProdRule))
	}
	return nil
}

func (b *Built) fromGrammar(g *lr1.Grammar) {
	for _, p := range g.Prods {
		b.ProdRule = append(b.ProdRule, p.Rule.Name)
		var ts []string
		var ea []bool
		he := false
		for _, t := range p.Terms {
			ts = append(ts, t.TermName())
			ea = append(ea, t == lr1.Term(g.ErrorTerminal))
			if t == lr1.Term(g.ErrorTerminal) {
				he = true
			}
		}
		b.ProdErrAt = append(b.ProdErrAt, ea)
		b.ProdTerms = append(b.ProdTerms, ts)
		b.ProdHasErr = append(b.ProdHasErr, he)
	}
	for _, r := range g.Rules {
		b.RuleNames = append(b.RuleNames, r.Name)
	}
	for _, t := range g.Terminals {
		b.TermNames = append(b.TermNames, t.Name)
	}
}

// Install swaps the carrier's parser tables for b's.
func (b *Built) Install(c *ctypes.Carrier) {
	c.SetParserTables(b.Rules, b.TermCounts, b.Actions, b.Goto)
	for n, v := range b.Extra {
		c.SetExtraTable(n, v)
	}
}

// Lox terminal index of harness token i (EOF=0, ERROR=1, then declaration order).
func LoxTok(i int) int { return i + 2 + Pad }

// Pad is the number of unused tokens the grammar built last declares before its
// own (gen.Grammar.PadToks): the explorers of a worker handle one grammar at a
// time, and every exploration (and replay) starts with Build.
var Pad int

// RefSym converts a lox terminal index to the cfgref terminal symbol.
func RefSym(loxTerm int) int {
	if loxTerm == 1 {
		return cfgref.ErrSym
	}
	return loxTerm - 2 - Pad + cfgref.TokOff
}

func sortedKeys(m map[string][]int64) []string {
	var out []string
	for k := range m {
		out = append(out, k)
	}
	sort.Strings(out)
	return out
}

func sortedStrings(x []string) []string {
	out := append([]string(nil), x...)
	sort.Strings(out)
	return out
}
