#!/bin/bash
# /verif/run.sh <property-id|setup|selftest ...> [quick|thorough] [extra args]
# Rebuilds everything from /repo's current working tree (Go's build cache makes
# unchanged stages cheap), then runs the check.
set -u
# The tree this script lives in (/verif, or a snapshot of it under vp run).
export VERIF_ROOT="$(cd "$(dirname "${BASH_SOURCE[0]}")" && pwd)"
cd "$VERIF_ROOT"
# The tree under test: /repo, or a scratch worktree when VERIF_REPO is set
# (then an alternative go.mod with the replace directive pointing there is used).
export VERIF_REPO="${VERIF_REPO:-/repo}"
export GOFLAGS=-mod=mod GOPROXY=off GOSUMDB=off GOTOOLCHAIN=local
export GOCACHE=${GOCACHE:-/root/.cache/go-build}
mkdir -p work bin

# Overlay: inject hook files (build tag verif) into lox packages; /repo is untouched.
cat > work/overlay.json <<JSON
{"Replace": {
  "$VERIF_REPO/internal/codegen/zz_verif_hook.go": "$VERIF_ROOT/hooks/codegen_hook.go"
}}
JSON
MODFLAG=""
if [ "$VERIF_REPO" != "/repo" ]; then
  sed "s|=> /repo|=> $VERIF_REPO|" go.mod > work/alt.mod
  cp go.sum work/alt.sum
  MODFLAG="-modfile=$VERIF_ROOT/work/alt.mod"
  export GOFLAGS="$GOFLAGS $MODFLAG"
fi
BUILD="go build -tags verif -overlay $VERIF_ROOT/work/overlay.json"

fail_build() {
  echo "HARNESS-ERROR: build failed at stage $1 (not a property violation)" >&2
  exit 2
}

# Stage 1: carrier generator, then the carrier packages from the current tree.
$BUILD -o bin/mkcarrier ./cmd/mkcarrier || fail_build mkcarrier
./bin/mkcarrier work/carrier || fail_build carrier-generation
# Stage 2: the model checker itself (imports /repo and the carriers).
$BUILD -o bin/loxmc ./cmd/loxmc || fail_build loxmc

# C13 (and setup): the map-order seam needs its own binary, built with every
# map range of lox rewritten from the current tree.
if [ "${1:-}" = "C13" ] || [ "${1:-}" = "setup" ]; then
  $BUILD -o bin/maprewrite ./cmd/maprewrite || fail_build maprewrite
  ./bin/maprewrite work/maporder >/dev/null || fail_build maprewrite-run
  go build -tags "verif maporder" -overlay $VERIF_ROOT/work/maporder/overlay.json -o bin/loxmc-maporder ./cmd/loxmc || fail_build loxmc-maporder
fi

if [ "${1:-}" = "setup" ]; then
  ./bin/loxmc setup
  exit $?
fi
# Thorough tier: families enumerated through family.each stop gracefully (reported
# as a cap, exit 0, exhaustive:false) once the run is older than this.
if [ "${2:-}" = "thorough" ]; then export VERIF_BUDGET_S="${VERIF_BUDGET_S:-1500}"; fi
exec ./bin/loxmc "$@"
