#!/bin/bash
# tools/stage_seed.sh <round> <property> '<demo command using $SEED and $TREE>' [check ...]
# Copies a sub-agent's delivery (/tmp/seed<R>_<id>_out) to seeded/<R>-<id>/,
# confirms it (tools/confirm_seed.sh) and runs the property's quick check
# against it (tools/try_seed.sh). Prints both results; the scratch worktree of
# the agent is removed when the confirmation succeeds.
set -u
R=$1; ID=$2; CMD=$3; shift 3
CHECKS=${*:-$ID}
cd /verif
src=/tmp/seed${R}_${ID}_out; dst=seeded/$R-$ID
[ -f $src/patch.diff ] || git -C /tmp/seed${R}_${ID} diff > $src/patch.diff
rm -rf $dst; mkdir -p $dst
cp $src/patch.diff $dst/; cp -r $src/demo $dst/demo; echo "$CMD" > $dst/demo.cmd
python3 - "$src/meta.json" "$dst/meta.json" "$R" "$ID" "$CHECKS" <<'PY'
import json,sys
src,dst,R,ID,checks=sys.argv[1:6]
try: m=json.load(open(src))
except Exception as e: m={"summary":"(meta.json of the agent unreadable: %s)"%e}
m["property"]=ID; m["round"]=R
m["origin"]="written by a fresh sub-agent that was given only the text of the property, its own scratch worktree of /repo, and (so that the rounds differ) short descriptions of the earlier rounds' changes for the same property to stay away from"
m["checks"]=checks.split()
json.dump(m,open(dst,'w'),indent=1)
PY
c=$(tools/confirm_seed.sh $dst 2>&1 | grep '^CONFIRM'); echo "$c"
if echo "$c" | grep -q "suite_with_change=pass demo_with_change_exit=[1-9][0-9]* demo_without_change_exit=0"; then
  python3 - "$dst/meta.json" <<'PY'
import json,sys
m=json.load(open(sys.argv[1])); m["confirmed_by"]="tools/confirm_seed.sh: the patch applies to /repo HEAD, the tree builds, `go test -count=1 ./...` passes with the change, the demonstration (demo.cmd) fails with the change and passes without it"
json.dump(m,open(sys.argv[1],'w'),indent=1)
PY
  git -C /repo worktree remove --force /tmp/seed${R}_${ID} 2>/dev/null
  SEED_TAG=_$R$ID tools/try_seed.sh $dst/patch.diff $CHECKS 2>&1 | tail -8
else
  echo "NOT CONFIRMED: $dst (left in place for inspection)"
fi
