#!/bin/bash
# tools/run_seeded.sh [name ...]
# Runs, for every seeded change under /verif/seeded/<name>/ (patch.diff,
# meta.json with "property" and optional "checks"), the quick checks named in
# its meta against a scratch worktree of /repo HEAD with the patch applied
# (tools/try_seed.sh: neither /repo nor /verif is touched), and writes the
# table /verif/seeded/README.md. The equivalent in-place procedure is:
#   git -C /repo apply seeded/<name>/patch.diff; ./run.sh <check> quick; git -C /repo checkout -- .
set -u
cd /verif
names="$*"
[ -z "$names" ] && names=$(ls seeded | grep -v README)
results=/verif/seeded/results.tsv
[ -f "$results" ] || : > "$results"
for n in $names; do
  d=seeded/$n
  [ -f "$d/patch.diff" ] || continue
  prop=$(python3 -c "import json;print(json.load(open('$d/meta.json'))['property'])")
  checks=$(python3 -c "import json;m=json.load(open('$d/meta.json'));print(' '.join(m.get('checks',[m['property']])))")
  tools/try_seed.sh $d/patch.diff $checks 2>&1 | grep '^RESULT' | while read -r line; do
    c=$(echo "$line" | sed 's/.*check=\([^ ]*\).*/\1/'); code=$(echo "$line" | sed 's/.*exit=\([^ ]*\).*/\1/')
    nv=$(echo "$line" | sed 's/.*violations=\([^ ]*\).*/\1/'); kinds=$(echo "$line" | sed 's/.*kinds=//')
    grep -v "^$n	$c	" "$results" > "$results.tmp"; mv "$results.tmp" "$results"
    printf "%s\t%s\t%s\t%s\t%s\t%s\n" "$n" "$c" "$prop" "$code" "$nv" "$kinds" >> "$results"
    echo "$n $c exit=$code violations=$nv $kinds"
  done
done
python3 - <<'PY'
import json,os
rows=[l.rstrip('\n').split('\t') for l in open('/verif/seeded/results.tsv') if l.strip()]
out=["# Seeded changes and the checks that catch them","",
"Each directory holds `patch.diff` (a change to dcaiafa/lox, written by an independent sub-agent that saw only the property's text, which breaks the named property while the repository still compiles and its unedited test suite passes), the sub-agent's demonstration (`demo/`, run by `demo.cmd`; it fails with the change and passes without it: confirmed with `tools/confirm_seed.sh`) and `meta.json`.",
"The table is written by `tools/run_seeded.sh`: each patch is applied to a scratch worktree of /repo HEAD and the named quick checks are run against it (exit 1 = the check reports a VIOLATION, as it should).","",
"| seeded change | breaks | check run | exit | VIOLATION lines | kinds reported |","|---|---|---|---|---|---|"]
for n,c,p,code,nv,kinds in sorted(rows):
    out.append(f"| {n} | {p} | {c} | {code} | {nv} | {kinds} |")
out.append("")
for n in sorted(os.listdir('/verif/seeded')):
    mp=f'/verif/seeded/{n}/meta.json'
    if os.path.exists(mp):
        m=json.load(open(mp))
        out.append(f"* **{n}** ({m['property']}): {m.get('summary','')}")
        out.append(f"  * needs: {m.get('what_it_needs_to_manifest','')}")
        if m.get('first_result'): out.append(f"  * history: {m['first_result']}")
open('/verif/seeded/README.md','w').write("\n".join(out)+"\n")
PY
