#!/bin/bash
# Applies every seeded change under /verif/seeded/<name>/patch.diff to /repo in
# turn, runs the quick checks named in its meta.json ("checks": [...], default:
# the check of the property it breaks), records which of them report a
# VIOLATION, and undoes the change straight afterwards. Writes
# /verif/seeded/README.md. Usage: tools/run_seeded.sh [name ...]
set -u
cd /verif
if [ -n "$(git -C /repo status --porcelain)" ]; then
  echo "refusing: /repo has uncommitted changes" >&2; exit 2
fi
names="$*"
[ -z "$names" ] && names=$(ls seeded | grep -v README)
results=/verif/seeded/.results.tsv
[ -f "$results" ] || : > "$results"
for n in $names; do
  d=seeded/$n
  [ -f "$d/patch.diff" ] || continue
  prop=$(python3 -c "import json;print(json.load(open('$d/meta.json'))['property'])")
  checks=$(python3 -c "import json;m=json.load(open('$d/meta.json'));print(' '.join(m.get('checks',[m['property']])))")
  if ! git -C /repo apply "$PWD/$d/patch.diff"; then echo "$n: patch does not apply" >&2; continue; fi
  for c in $checks; do
    out=$(./run.sh $c quick 2>&1); code=$?
    nv=$(echo "$out" | grep -c '^VIOLATION')
    kinds=$(echo "$out" | grep '^  kind=' | sed 's/^  kind=\([^ ]*\).*/\1/' | sort -u | head -4 | tr '\n' ' ')
    grep -v "^$n	$c	" "$results" > "$results.tmp"; mv "$results.tmp" "$results"
    printf "%s\t%s\t%s\t%s\t%s\t%s\n" "$n" "$c" "$prop" "$code" "$nv" "$kinds" >> "$results"
    echo "$n $c exit=$code violations=$nv $kinds"
  done
  git -C /repo checkout -- . ; git -C /repo clean -fdq
done
python3 - <<'PY'
import json,os
rows=[l.rstrip('\n').split('\t') for l in open('/verif/seeded/.results.tsv') if l.strip()]
out=["# Seeded changes and the checks that catch them","",
"Each directory holds `patch.diff` (a change to dcaiafa/lox that breaks the named property while the repository still compiles and its test suite passes), a demonstration and `meta.json`. The table is written by `tools/run_seeded.sh`, which applies each patch to /repo, runs the named quick checks and undoes the patch.","",
"| seeded change | breaks | check run | exit | VIOLATION lines | kinds reported |","|---|---|---|---|---|---|"]
for n,c,p,code,nv,kinds in sorted(rows):
    out.append(f"| {n} | {p} | {c} | {code} | {nv} | {kinds} |")
out.append("")
for n in sorted(os.listdir('/verif/seeded')):
    mp=f'/verif/seeded/{n}/meta.json'
    if os.path.exists(mp):
        m=json.load(open(mp))
        out.append(f"* **{n}** ({m['property']}): {m.get('summary','')} — needs: {m.get('what_it_needs_to_manifest','')}")
open('/verif/seeded/README.md','w').write("\n".join(out)+"\n")
PY
