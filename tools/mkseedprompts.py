#!/usr/bin/env python3
"""tools/mkseedprompts.py <round-letter>
Creates, for every property, a scratch worktree /tmp/seed<R>_<id> of /repo HEAD
and /tmp/seed<R>_<id>_out/{PROMPT.txt,PROPERTY.txt}: the brief handed to a fresh
sub-agent. The brief contains the text of ONE property and, so that rounds
differ, a short description of the changes earlier rounds produced for that
property (from seeded/*/meta.json). Nothing about /verif's checks is in it."""
import json, os, subprocess, sys, glob
R = sys.argv[1]
TMPL = r'''You are working on a scratch git worktree of the Go project dcaiafa/lox (a parser/lexer generator that builds LALR(1) tables and minimized DFAs from a grammar and emits Go code). The worktree is at /tmp/seed@R@_@ID@ . Work ONLY inside /tmp/seed@R@_@ID@ and write your results to /tmp/seed@R@_@ID@_out/ . Do NOT read, list or touch /verif or /repo or any other /tmp/seed* directory.

Environment: the sandbox is offline. In EVERY shell command first run:
  export GOFLAGS=-mod=mod GOPROXY=off GOSUMDB=off GOTOOLCHAIN=local
The project's tests: `cd /tmp/seed@R@_@ID@ && go test -count=1 ./...` (about 25 s). The CLI is ./cmd/lox (usage: `lox <package-dir>`; it must run inside a Go module). README.md, docs/markdown/*.md and CLAUDE.md describe the tool.

The property (read /tmp/seed@R@_@ID@_out/PROPERTY.txt too):
@PROP@

Your task: make ONE realistic change to the project's NON-TEST source that BREAKS this property while the project still compiles and `go test ./...` still passes completely. Prefer the kind of slip a developer could really make (an off-by-one, a wrong comparison, a cache or scratch buffer hoisted to package scope, a forgotten case, a sort dropped, two sites that each look fine alone). The change should need something specific to manifest - a particular input shape, an unusual input, a multi-step sequence, a particular interleaving or earlier run - and NOT be something that ordinary use or the existing tests expose at once. Do not edit or delete tests or golden baselines.
If (and only if) you change a code template inside internal/codegen/emit_*.go, also regenerate the checked-in generated parsers so the tree stays self-consistent: `go build -o /tmp/seed@R@_@ID@_out/lox ./cmd/lox` and then run `/tmp/seed@R@_@ID@_out/lox .` inside each of internal/parser, examples/calc, examples/jsonc, examples/bolox (do the whole round twice), and include those regenerated files in your patch.

Deliver:
1. /tmp/seed@R@_@ID@_out/patch.diff : output of `git -C /tmp/seed@R@_@ID@ diff` (your complete change relative to HEAD).
2. /tmp/seed@R@_@ID@_out/demo/ : a demonstration (a Go test file to drop into a package of the project, or a small program / script, plus README.md saying exactly how to run it) that FAILS or visibly shows the wrong behaviour WITH your change and PASSES WITHOUT it. Scripts must take the path of the lox source tree as their first argument and must not depend on /tmp/seed@R@_@ID@_out existing.
3. /tmp/seed@R@_@ID@_out/meta.json : {"property": "@ID@", "summary": ..., "what_it_needs_to_manifest": ..., "files_changed": [...], "how_to_run_demo": ...}.
Verify all of it yourself before finishing: (a) the tree builds and `go test -count=1 ./...` passes WITH the change; (b) the demo fails WITH the change and passes WITHOUT it (do NOT use `git stash`: the stash is shared with other worktrees of this repository; compare with/without via `git diff > /tmp/seed@R@_@ID@_out/p.patch; git apply -R /tmp/seed@R@_@ID@_out/p.patch; ...; git apply /tmp/seed@R@_@ID@_out/p.patch`); (c) leave the worktree with your change applied and no extra files in it (demo files live under /tmp/seed@R@_@ID@_out/demo/).
Finish with a short report of what you changed, why it breaks the property, and what it needs to manifest.
'''
for l in open('/verif/properties.jsonl'):
    p = json.loads(l); pid = p['id']
    wt = f'/tmp/seed{R}_{pid}'; out = wt + '_out'
    subprocess.run(['git', '-C', '/repo', 'worktree', 'add', '-q', '--detach', wt, 'HEAD'], check=True)
    os.makedirs(out, exist_ok=True)
    prop = "%s — %s\n%s\n(Quantified over: %s)" % (pid, p['title'], p['statement'], p['quantifier']['text'])
    t = TMPL.replace('@R@', R).replace('@ID@', pid).replace('@PROP@', prop)
    prev = []
    for mp in sorted(glob.glob('/verif/seeded/*/meta.json')):
        m = json.load(open(mp))
        if m['property'] == pid:
            prev.append(m)
    if prev:
        t += "\n\nIMPORTANT: other engineers have already produced the following changes for this property. Yours must be a DIFFERENT change: different file or mechanism, different kind of trigger. Do not reproduce or vary these:\n"
        for m in prev:
            t += "  - files: %s\n    summary: %s\n" % (m.get('files_changed'), m['summary'][:500])
    if pid == 'C14':
        t += "\nNote for this property: the interesting changes are ones where generator sources and checked-in generated files silently stop agreeing while all tests still pass; so for THIS property ignore the instruction about regenerating all the checked-in parsers after a template change.\n"
    open(out + '/PROMPT.txt', 'w').write(t)
    open(out + '/PROPERTY.txt', 'w').write(prop)
print("ok")
