#!/bin/bash
# Regenerates the checked-in generated parsers of /repo IN PLACE with the
# generator built from /repo's current tree (twice: the second pass uses the
# regenerated front end). Only used when preparing a "fix:" commit that changes
# a template.
set -e
export GOFLAGS=-mod=mod GOPROXY=off GOSUMDB=off GOTOOLCHAIN=local
cd /repo
for pass in 1 2; do
  go build -o /dev/shm/lox.regen ./cmd/lox
  for d in internal/parser examples/calc examples/jsonc examples/bolox; do
    (cd $d && /dev/shm/lox.regen . )
  done
done
rm -f /dev/shm/lox.regen
git -C /repo status --short
