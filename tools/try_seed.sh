#!/bin/bash
# tools/try_seed.sh <patch.diff> <check> [<check> ...]
# Tries a candidate change WITHOUT touching /repo or /verif: a scratch worktree
# of /repo HEAD gets the patch, a scratch worktree of /verif HEAD runs the named
# quick checks against it (VERIF_REPO). Prints one line per check.
set -u
patch=$(readlink -f "$1"); shift
TAG=${SEED_TAG:-}; SR=/dev/shm/seed_repo$TAG; SV=/dev/shm/seed_verif$TAG
git -C /repo worktree remove --force $SR 2>/dev/null; rm -rf $SR
git -C /repo worktree add -q --detach $SR HEAD || exit 2
git -C /verif worktree remove --force $SV 2>/dev/null; rm -rf $SV
git -C /verif worktree add -q --detach $SV HEAD || exit 2
if ! git -C $SR apply "$patch"; then echo "PATCH-DOES-NOT-APPLY"; exit 2; fi
for c in "$@"; do
  out=$(VERIF_REPO=$SR $SV/run.sh $c ${TIER:-quick} 2>&1); code=$?
  nv=$(echo "$out" | grep -c '^VIOLATION')
  kinds=$(echo "$out" | grep '^  kind=' | sed 's/^  kind=\([^ ]*\).*/\1/' | sort -u | head -5 | tr '\n' ' ')
  echo "RESULT check=$c exit=$code violations=$nv kinds=$kinds"
  echo "$out" | grep -E "HARNESS-ERROR|^  kind=" | head -4 | cut -c1-400
done
git -C /repo worktree remove --force $SR; git -C /verif worktree remove --force $SV
