#!/bin/bash
# tools/scratch_run.sh <check> [tier] : runs a check from a scratch worktree of
# /verif HEAD (under /dev/shm) against /repo, so that a run in progress in
# /verif itself is not disturbed. Evidence and replays stay in the scratch tree.
set -u
SV=/dev/shm/verif_scratch${SCRATCH_TAG:-}
git -C /verif worktree remove --force $SV 2>/dev/null; rm -rf $SV
git -C /verif worktree add -q --detach $SV HEAD || exit 2
$SV/run.sh "$@"; code=$?
[ "${KEEP:-}" = "" ] && git -C /verif worktree remove --force $SV
exit $code
