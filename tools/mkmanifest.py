#!/usr/bin/env python3
"""Regenerates /verif/MANIFEST.json from the table below (edit here, run, commit)."""
import json, sys

PROPS = [json.loads(l)['id'] for l in open('/verif/properties.jsonl')]

CHECKS = {
 "C01": dict(level="model_checking", technique="bounded exhaustive enumeration of grammars x all token strings up to a length bound, executed on the real generated runtime (table-swapped carrier) against a reference sentence set",
   text="Every grammar of the enumerated spaces that lox accepts is parsed on every token string up to the bound by the real template code with the grammar's real emitted tables; verdicts are compared with an independent CFG reference. Exhaustive inside the stated bounds (grammar size, string length); nothing beyond them.",
   note="Trusted: Go toolchain, go/types, internal/cfgref (own desugaring + sentence enumeration), the generic action replacing _act (bound to the code by textual conformance of every generated file with the carrier runtime on every run).", ref="DESIGN.md section C01, 2.3"),
 "C04": dict(level="exploration", technique="bounded exhaustive enumeration of grammars (incl. conflicting and precedence families); lox's automaton object and decoded emitted arrays walked in lock step against a reference canonical-LR(1)-merged-by-core construction",
   text="For every enumerated grammar the verdict (conflicts or not) equals the reference's, and for accepted grammars both lox's ParserTable object and the decoded _actions/_goto/_rules/_termCounts arrays are isomorphic to the reference LALR(1) automaton with the documented precedence rule applied.",
   note="Trusted: internal/lalrref. Grammars where the documented precedence rule is silent are skipped and counted. D2 (equal-level @right) is a recorded known finding with a predicate.", ref="DESIGN.md section C04"),
 "C05": dict(level="exploration", technique="exhaustive enumeration of operator tables x all operator chains up to a bound, parsed by the real runtime; tree compared with precedence climbing",
   text="All 1260 operator tables (binary levels, unary prefix operators sharing a token, four spellings of the level numerals) x every chain of up to 4 (quick) / 6 (thorough) operators and single parenthesisations: the tree built from the real reduce sequence must be the precedence-climbing tree.",
   note="Trusted: precedence-climbing reference in cmd/loxmc/c05.go. D2 (equal-level @right groups left) is a recorded known finding with a predicate.", ref="DESIGN.md section C05"),
 "C09": dict(level="model_checking", technique="bounded exhaustive enumeration of @error grammars x all strings (tokens + lexer ERROR) up to a bound + pumped variants, on the real runtime with exact non-termination criteria; Earley viability oracle",
   text="Every conflict-free grammar of the @error spaces is run on every input up to the bound (and pumped inputs) on the real template code; termination is decided exactly (repeated configuration / pumping / _recover inner-loop bound), and verdict, blamed token and consumed symbols are compared with an Earley reference.",
   note="Trusted: internal/cfgref Earley. The blamed-token oracle applies to reduced grammars; when the Error for the first bad token is still on the stack at the first delivery (right-nested error productions, bottom-up order) that is accepted and counted. The generic action never calls recoverLookahead.", ref="DESIGN.md section C09, 2.4"),
 "C16": dict(level="model_checking", technique="bounded exhaustive enumeration of nullable-rich grammars x all sentences up to a bound, executed on the second template variant (bounds carrier); spans compared with the yields of the reduction tree; differential against the plain variant and against runs whose actions return nil",
   text="For every accepted grammar with a nullable non-terminal, every sentence up to the bound is parsed by the real _onBounds template variant: exactly one call right after each non-empty reduction with the action's result and first/last token of the yield, none for empty yields, and verdict/reductions/reads identical to the variant without _onBounds.",
   note="Trusted: the tree built by the generic action from the real stack (its shape is C01/C03's subject). Error inputs are checked for exactly-once and crash freedom only.", ref="DESIGN.md section C16"),
 "C02": dict(level="model_checking", technique="bounded exhaustive enumeration of rule sets; per rule set an explicit-state BFS over the product (real _LexerStateMachine with emitted tables) x (reference derivative automaton) covering inputs of every length, plus all byte strings up to a bound through the real simplelexer driver",
   text="For every enumerated rule set inside the property's precondition the product of the real generated state machine and the reference is searched completely (finite graph): every PushRune result equals the documented longest-viable-run / earliest-rule semantics up to the first error, for all inputs over representatives of every class atom. Byte-level bookkeeping (offsets, multi-byte and invalid UTF-8) is covered by all short byte strings through the real driver.",
   note="Trusted: internal/lexref (Brzozowski derivatives over class atoms), internal/ivl. Bounds: rule-set size; driver strings up to L symbols.", ref="DESIGN.md section C02"),
 "C08": dict(level="model_checking", technique="exhaustive enumeration of prefix/body/terminator/cardinality/companion shapes; per spec explicit-state BFS over the product (real state machine) x (reference with first-complete-match semantics) plus all strings up to a bound through the real driver",
   text="Every specification of the enumerated non-greedy shapes is searched completely in product with the reference: a rule containing *? or +? ends at its first complete match, greedy rules keep the longest viable run. Where the two clauses conflict (non-greedy rule complete while a greedy rule can extend) the explorer follows the real machine and only requires that what is emitted matches the run exactly; those decisions are counted.",
   note="Trusted: internal/lexref. The ambiguity rule above is the check's reading of a situation the statement leaves open.", ref="DESIGN.md section C08"),
 "C07": dict(level="model_checking", technique="exhaustive enumeration of small mode graphs with every action placement and order; per spec explicit-state BFS over the product (real state machine) x (reference mode-stack machine) bounded by stack depth, plus all strings up to a bound through the real driver",
   text="Every enumerated mode graph is searched in product with the reference machine: after each rule match the emitted event, the current mode and the whole mode stack must be what the documented stack discipline defines, with every written action taking effect in any order. Token texts (including accumulated fragment text) are compared on all short strings through the real simplelexer.",
   note="Trusted: internal/lx RefM. The mode stack makes the product infinite; it is explored to depth D and deeper pushes are counted as closed branches. Nothing is compared after an unmatched @pop_mode.", ref="DESIGN.md section C07"),
 "C11": dict(level="model_checking", technique="bounded exhaustive enumeration of rule sets / mode graphs (nullable rules and accumulating fragments included); per spec explicit-state BFS of all reachable configurations of the real state machine with an exact livelock search (all input lengths), plus all byte strings up to a bound lexed to EOF by the real driver with a tiling oracle",
   text="For every enumerated specification every reachable configuration of the real state machine is visited and, for every pending rune, non-consuming answers are followed until they consume, end, or provably repeat (livelock). All short byte strings are then lexed to EOF by the real simplelexer with a recorder: token texts, discarded stretches and error stretches must tile the input exactly once, in order.",
   note="Trusted: the reconstruction of error stretches from the reference driver's skip-to-next-line behaviour; internal/lexref for the membership test (dropped text is matched by a @discard rule, token text by a rule of its type) on single-mode specifications.", ref="DESIGN.md section C11"),
 "C10": dict(level="model_checking", technique="read-back of the emitted integer tables by their documented row format; structural checks; state-by-state equality with the automaton objects; per lexer spec explicit-state BFS over the product (real state machine on the emitted table) x (reference automaton of the rules) = equivalence over all strings",
   text="For every specification of the enumerated families the emitted _lexerModeN tables are decoded independently, checked for structure, compared edge by edge with the DFA object they were emitted from, and the real PushRune running on them is searched in product with the reference automaton of the rules, so subset construction, partition refinement and range merging are shown to change nothing observable for all strings. Parser arrays are decoded and compared entry for entry with the automaton object.",
   note="Trusted: internal/lexref, the row-format decoder in internal/px/decode.go and cmd/loxmc/c10.go.", ref="DESIGN.md section C10"),
 "C15": dict(level="exploration", technique="exhaustive small-scope enumeration of range lists over a universe embedded at both ends of the code space (rang3 vs own interval arithmetic), and of class expressions/literals written as lox text, decided on the emitted tables by the product search",
   text="Flatten/Normalize/Subtract agree with independent interval arithmetic on every list of the small universe (sorted, disjoint, same set, exact partition); every enumerated class expression and literal, through the real front end and generator, matches exactly the code points of its set-theoretic meaning at both end points and a middle point of every atom; overlapping classes in one mode keep their meaning after splitting and merging.",
   note="Trusted: internal/ivl. Bounded by list length and the boundary-point menus.", ref="DESIGN.md section C15"),
 "C14": dict(level="exploration", technique="complete exploration of a finite space: 4 directories x 3 bootstrap stages, byte comparison of regenerated and checked-in files",
   text="The generator built from the current tree regenerates internal/parser and the three examples byte for byte (over the checked-in files and after deleting them), and the generator rebuilt from the regenerated front end does so again.",
   note="Trusted: go build with the sandbox toolchain; rsync for scratch copies.", ref="DESIGN.md section C14"),
 "C19": dict(level="exploration", technique="exhaustive enumeration of declaration layouts (tokens, modes, @external, @emit, two files) up to a length bound; read-back of constants, _TokenToString AST, decoded lexer accept parameters and parser table keys; sentence written with expected constants executed on the real runtime",
   text="For every layout the three generated files agree on one numbering, which is the textual declaration order with EOF=0 and ERROR=1: const block, _TokenToString, accept parameters in the decoded mode tables, keys of the decoded parser tables (against the reference automaton), and an end-to-end parse using the expected constants.",
   note="Expected numbering computed by the harness from the text it printed. @external names cannot be referenced from the parser section (lox rejects that), so the parser references token rules only.", ref="DESIGN.md section C19"),
 "C17": dict(level="fault_enumeration", technique="single-fault enumeration: every fault of a catalogue placed at every applicable syntactic site of well-formed base specifications, plus benign variants; front end executed on each",
   text="Every fault of the catalogue at every site is rejected with a diagnostic whose file:line lies inside the faulty declaration (the harness prints the text, so it knows the spans); every benign variant of the well-formed bases is accepted.",
   note="Bounded by the two base specifications and the catalogue in cmd/loxmc/c17.go. A mode block cannot be re-opened in lox, so in-mode sites stay in the mode's file.", ref="DESIGN.md section C17"),
 "C12": dict(level="fault_enumeration", technique="deviation-bounded exhaustive exploration around valid inputs: every single token-level, declaration-level and byte-level deviation at every position of the seeds (bound 1), every pair of token-level deviations around a tiny seed (bound 2), whole pipeline executed in process under recover(); finite Go-package menu through the real binary",
   text="Every single-token deletion, duplication, transposition, replacement and insertion (menu of ~75 extreme lexemes), every truncation and every special-byte substitution of the seed specifications goes through the whole generator: it must return, never panic, and either produce three complete Go files or at least one diagnostic. About 35 package configurations (missing, ill-typed, ill-shaped, stale files, no module) are run through the real lox binary.",
   note="Bound 1 on all seeds, bound 2 on one tiny seed with a reduced menu. No exact hang criterion exists inside the generator: a 120 s watchdog ends a shard as inconclusive (exit 0), never as a violation. Whether accepted output compiles with the package is left to C06.", ref="DESIGN.md section C12"),
 "C03": dict(level="exploration", technique="exhaustive enumeration of a shape-complete sugar family; unmodified generated code compiled with a logging user package by the real toolchain and run on every sentence up to a bound; action log compared with the post-order of the reference derivation tree",
   text="For every grammar of the family, the real generated parser (unmodified, compiled) runs every sentence up to the bound; the sequence of action calls, each argument and each result must be exactly the bottom-up, left-to-right traversal of the unique derivation tree, with the documented values for ? * + *! @list.",
   note="Trusted: internal/cfgref trees and the documented sugar values as implemented in cmd/loxmc/c03.go. Bounded by the family and sentence length.", ref="DESIGN.md section C03"),
 "C06": dict(level="exploration", technique="exhaustive enumeration of a result-type x parameter-type matrix, list/optional/token/@error terms and binding layouts; verdict compared with an expected table cross-checked against go/types; every accepted binding compiled by the real toolchain with the unmodified generated files and run with sentinel values",
   text="Every cell of the type matrix and every layout is generated: lox must accept exactly the bindings in which each production has one and only one assignable method, name the production or method otherwise, and every accepted package is really compiled and run so that each action parameter is shown to hold exactly the value produced for its term.",
   note="Trusted: the assignability table in cmd/loxmc/c06.go (checked against go/types on every run); the fast ParseGo path.", ref="DESIGN.md section C06"),
 "C13": dict(level="model_checking", technique="controlled nondeterminism: every map range of lox rewritten (from the current tree) over an explorer-owned key order, all schedules with one deviating occurrence and all site-uniform policies executed; explicit-state BFS over directory states with the real binary",
   text="(a) The generator is run under every explored map-iteration schedule (default canonical order, then every single-occurrence deviation, then site-uniform reversals/rotations of one, two and all sites): generated files, report and diagnostics must be identical. (b) A breadth-first search over directory states (earlier generations of this or another grammar, deleted or swapped generated files) with the real binary invoked from three working directories: every run must leave exactly the bytes a fresh directory gets.",
   note="Trusted: the map-range rewriter (cmd/maprewrite) and hooks/verifmap.go. Libraries outside the repository are exercised by (b)'s separate processes, not explored. Bounds: one deviation per execution plus uniform policies; directory histories of depth 2 (quick) / 3 (thorough).", ref="DESIGN.md section C13, 2.6"),
 "C18": dict(level="model_checking", technique="stateless model checking of the unmodified generated code compiled for real: cooperative scheduler with scheduling points at every loop iteration and function entry, all schedules up to a preemption bound (iterative context bounding), stateful search keyed on thread positions + hash of package-level variables; separate free-running -race pass",
   text="Generated parsers and lexers of two grammars (with error recovery, modes and _onBounds) run as 2-3 threads under an explorer-owned scheduler: for every schedule within the preemption bound each thread's full observable trace equals its solo trace and the hash of every package-level variable of the generated files never changes; the same bodies run free under the race detector.",
   note="On the unchanged tree nothing is shared, so every thread has one distinct outcome; the check earns its keep on seeded changes (a package-level scratch buffer is caught by all three oracles). Bounds: preemption bound 1 (quick) / 2 on short inputs (thorough).", ref="DESIGN.md section C18"),
}

NA_REASON = "check not built yet (work in progress; see DESIGN.md for the plan)"

def main():
    checks = []
    for pid in PROPS:
        c = CHECKS.get(pid)
        if not c: continue
        checks.append({
            "property_id": pid,
            "quick_cmd": f"/verif/run.sh {pid} quick",
            "thorough_cmd": f"/verif/run.sh {pid} thorough",
            "evidence_file": f"/verif/evidence/{pid}.json",
            "replay_cmd_template": "/verif/bin/loxmc replay {path}",
            "engine": "loxmc",
            "level_claimed": {"category": c["level"], "text": c["text"], "design_ref": c["ref"]},
            "level_note": c["note"],
            "technique": c["technique"],
        })
    m = {
        "version": 1,
        "setup_cmd": "/verif/setup.sh",
        "hooks": {
            "guard": "verif",
            "enable": "go build -tags verif -overlay /verif/work/overlay.json: hook files live in /verif/hooks (//go:build verif) and are injected into lox packages by overlay at build time; nothing is committed in /repo for instrumentation",
            "baseline_off_cmd": "cd /repo && GOFLAGS=-mod=mod GOPROXY=off GOSUMDB=off GOTOOLCHAIN=local go test -vet=off -count=1 ./...",
            "source_commits": [],
            "add_only": True,
        },
        "engines": [
            {"name": "loxmc", "path": "/verif/cmd/loxmc", "serves_properties": sorted(CHECKS.keys()),
             "kind_free_text": "hand-written explicit-state / small-scope explorer in Go: counter-enumerated grammars and rule sets, real generated runtime executed with swapped tables (carrier), product BFS against reference automata, exact non-termination criteria; 16 worker processes"},
        ],
        "checks": checks,
        "notes": "run.sh rebuilds mkcarrier, the carrier packages and loxmc from /repo's current tree on every invocation (Go build cache). Exit 2 = harness error, never a violation.",
        "not_applicable": [{"property_id": p, "reason": NA_REASON} for p in PROPS if p not in CHECKS],
    }
    json.dump(m, open('/verif/MANIFEST.json', 'w'), indent=1)

main()
