#!/bin/bash
# tools/confirm_seed.sh <seed-dir> : confirms a seeded change in a scratch
# worktree of /repo HEAD: (1) patch applies, tree builds, the repository's own
# test suite passes WITH the change; (2) the demonstration FAILS with the
# change and PASSES without it. The seed dir holds patch.diff, demo/, demo.cmd
# (a shell snippet run with $TREE = the worktree and $SEED = the seed dir;
# exit status 0 = demonstration passes).
set -u
SEED=$(readlink -f "$1")
export GOFLAGS=-mod=mod GOPROXY=off GOSUMDB=off GOTOOLCHAIN=local
TREE=/dev/shm/confirm_$(basename $SEED)
git -C /repo worktree remove --force $TREE 2>/dev/null; rm -rf $TREE; git -C /repo worktree prune
git -C /repo worktree add -q --detach $TREE HEAD || exit 2
export TREE SEED
res() { echo "CONFIRM $(basename $SEED): $*"; }
cd $TREE
if ! git apply $SEED/patch.diff; then res "patch does not apply"; exit 1; fi
if ! go build ./... 2>/dev/null; then res "does not build"; exit 1; fi
if [ "${SKIP_SUITE:-}" = "" ]; then
  if go test -count=1 ./... > $TREE.suite.log 2>&1; then suite=pass; else suite=FAIL; fi
else suite=skipped; fi
( cd $TREE; bash -e $SEED/demo.cmd ) > $TREE.with.log 2>&1; with=$?
git apply -R $SEED/patch.diff
( cd $TREE; bash -e $SEED/demo.cmd ) > $TREE.without.log 2>&1; without=$?
res "suite_with_change=$suite demo_with_change_exit=$with demo_without_change_exit=$without"
cd /; git -C /repo worktree remove --force $TREE; rm -f $TREE.suite.log
