#!/bin/bash
# tools/try_wip.sh <patch.diff> <check> [...] : like try_seed.sh, but with the
# WORKING TREE of /verif (uncommitted changes included), copied to /dev/shm.
set -u
patch=$(readlink -f "$1"); shift
SR=/dev/shm/wip_repo; SV=/dev/shm/vcopy
git -C /repo worktree remove --force $SR 2>/dev/null; rm -rf $SR
git -C /repo worktree add -q --detach $SR HEAD || exit 2
rsync -a --delete --exclude .git --exclude bin --exclude work --exclude replays /verif/ $SV/
if ! git -C $SR apply "$patch"; then echo "PATCH-DOES-NOT-APPLY"; exit 2; fi
for c in "$@"; do
  out=$(VERIF_REPO=$SR $SV/run.sh $c ${TIER:-quick} 2>&1); code=$?
  nv=$(echo "$out" | grep -c '^VIOLATION')
  kinds=$(echo "$out" | grep '^  kind=' | sed 's/^  kind=\([^ ]*\).*/\1/' | sort -u | head -5 | tr '\n' ' ')
  echo "RESULT check=$c exit=$code violations=$nv kinds=$kinds"
  echo "$out" | grep -E "HARNESS-ERROR|^  kind=" | head -3 | cut -c1-300
done
git -C /repo worktree remove --force $SR
