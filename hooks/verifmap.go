// Package verifmap is NOT part of dcaiafa/lox. It is a virtual package supplied
// by build overlay when the map-order seam of property C13 is compiled in:
// every `range` over a built-in map in lox's sources is rewritten (at check
// time, from the current tree) into a loop over verifmap.Keys(m, site), which
// returns the keys in a canonical order permuted as the explorer chooses.
package verifmap

import (
	"fmt"
	"reflect"
	"sort"
)

// Chooser returns the permutation to apply to the n canonically ordered keys
// of this dynamic occurrence (nil = identity). Set by the explorer.
var Chooser func(site string, occurrence int, n int) []int

// Occurrence counts Keys calls since the last Reset.
var Occurrence int

// Ambiguous counts occurrences in which two distinct keys had the same
// canonical sort key (the order between them is then the runtime's).
var Ambiguous int

func Reset() { Occurrence, Ambiguous = 0, 0 }

func Keys[K comparable, V any](m map[K]V, site string) []K {
	keys := make([]K, 0, len(m))
	for k := range m {
		keys = append(keys, k)
	}
	ck := make(map[K]string, len(keys))
	for _, k := range keys {
		ck[k] = ckey(reflect.ValueOf(&k).Elem(), 0)
	}
	sort.SliceStable(keys, func(i, j int) bool { return ck[keys[i]] < ck[keys[j]] })
	for i := 1; i < len(keys); i++ {
		if ck[keys[i]] == ck[keys[i-1]] {
			Ambiguous++
			break
		}
	}
	occ := Occurrence
	Occurrence++
	if Chooser != nil {
		if p := Chooser(site, occ, len(keys)); p != nil {
			out := make([]K, len(keys))
			for i, j := range p {
				out[i] = keys[j]
			}
			keys = out
		}
	}
	return keys
}

func ckey(v reflect.Value, depth int) string {
	if depth > 4 {
		return "..."
	}
	switch v.Kind() {
	case reflect.String:
		return "s:" + v.String()
	case reflect.Int, reflect.Int8, reflect.Int16, reflect.Int32, reflect.Int64:
		return fmt.Sprintf("i:%020d", uint64(v.Int())+1<<63)
	case reflect.Uint, reflect.Uint8, reflect.Uint16, reflect.Uint32, reflect.Uint64:
		return fmt.Sprintf("u:%020d", v.Uint())
	case reflect.Bool:
		return fmt.Sprint("b:", v.Bool())
	case reflect.Interface, reflect.Ptr:
		if v.IsNil() {
			return "nil"
		}
		e := v.Elem()
		if e.Kind() == reflect.Struct {
			s := "T:" + e.Type().Name() + ":"
			found := false
			for _, f := range []string{"Index", "ID", "Name"} {
				if fv := e.FieldByName(f); fv.IsValid() {
					s += ckey(fv, depth+1) + ":"
					found = true
				}
			}
			if found {
				return s
			}
		}
		return ckey(e, depth+1)
	case reflect.Struct:
		s := "{"
		for i := 0; i < v.NumField(); i++ {
			s += ckey(v.Field(i), depth+1) + ","
		}
		return s + "}"
	}
	return "?" + v.Kind().String()
}
