//go:build verif

// This file is NOT part of dcaiafa/lox. It is injected into package codegen at
// build time by `go build -tags verif -overlay ...` from /verif/hooks. It only
// adds code; nothing in the repository is rewritten.
package codegen

import (
	"go/ast"
	"go/importer"
	goparser "go/parser"
	gotoken "go/token"
	gotypes "go/types"
	"os"
	"path/filepath"
	"sort"
	"strings"
	"sync"

	"github.com/dcaiafa/lox/internal/lexergen/mode"
	"github.com/dcaiafa/lox/internal/parsergen/lr1"
)

// A process-wide source importer for standard-library imports (not safe for
// concurrent use, hence the lock).
type verifLockedImporter struct {
	mu  sync.Mutex
	imp gotypes.Importer
}

func (l *verifLockedImporter) Import(path string) (*gotypes.Package, error) {
	l.mu.Lock()
	defer l.mu.Unlock()
	return l.imp.Import(path)
}

var (
	verifImpOnce sync.Once
	verifImp     *verifLockedImporter
)

func verifDefaultImporter() gotypes.Importer {
	verifImpOnce.Do(func() {
		verifImp = &verifLockedImporter{imp: importer.ForCompiler(gotoken.NewFileSet(), "source", nil)}
	})
	return verifImp
}

// VerifParseOrder, if set, chooses the order in which verifParseGo parses the n
// Go files of the package (name order, placeholder last): a permutation of 0..n-1.
var VerifParseOrder func(n int) []int

// VerifResult exposes the objects the generated files were emitted from.
type VerifResult struct {
	OK            bool
	Stage         string // name of the stage that returned false ("" if OK)
	Grammar       *lr1.Grammar
	Table         *lr1.ParserTable
	Modes         map[string]*mode.Mode
	EmitBounds    bool
	ParserType    string
	RuleGoTypes   map[string]string // rule name -> Go type string
	ActionMethods map[int]string    // production index -> method name
}

// VerifGenerateFast runs the same stage sequence as Generate, with ParseGo's
// packages.Load replaced by an in-process go/types check of the directory's
// non-test .go files (parser.gen.go replaced by the same placeholder). All
// other stages are the repository's own.
func VerifGenerateFast(cfg *Config, pkgPath string, imp gotypes.Importer) *VerifResult {
	ctx := &context{
		Fset:   cfg.Fset,
		Errs:   cfg.Errs,
		Dir:    cfg.Dir,
		Report: cfg.Report,
	}
	res := &VerifResult{}
	fill := func() {
		res.Grammar = ctx.ParserGrammar
		res.Table = ctx.ParserTable
		res.Modes = ctx.LexerModes
		res.EmitBounds = ctx.EmitBounds
		if ctx.ParserType != nil {
			res.ParserType = ctx.ParserType.Obj().Name()
		}
		if ctx.RuleGoTypes != nil {
			res.RuleGoTypes = make(map[string]string)
			for r, t := range ctx.RuleGoTypes {
				if t != nil {
					res.RuleGoTypes[r.Name] = t.String()
				}
			}
		}
		if ctx.ActionMethods != nil {
			res.ActionMethods = make(map[int]string)
			for p, m := range ctx.ActionMethods {
				res.ActionMethods[p.Index] = m.Name()
			}
		}
	}
	stages := []struct {
		name string
		f    func() bool
	}{
		{"ParseLox", ctx.ParseLox},
		{"PreParseGo", ctx.PreParseGo},
		{"EmitBase", ctx.EmitBase},
		{"EmitLexer", ctx.EmitLexer},
		{"ParseGo", func() bool { return ctx.verifParseGo(pkgPath, imp) }},
		{"AssignActions", ctx.AssignActions},
		{"EmitParser", ctx.EmitParser},
	}
	for _, st := range stages {
		if !st.f() {
			res.Stage = st.name
			fill()
			return res
		}
	}
	res.OK = true
	fill()
	return res
}

// VerifFrontEnd runs only ParseLox (parse, analyze, LALR construction) and
// returns the objects, whether or not the grammar has conflicts.
func VerifFrontEnd(cfg *Config) *VerifResult {
	ctx := &context{
		Fset:   cfg.Fset,
		Errs:   cfg.Errs,
		Dir:    cfg.Dir,
		Report: cfg.Report,
	}
	res := &VerifResult{}
	res.OK = ctx.ParseLox()
	if !res.OK {
		res.Stage = "ParseLox"
	}
	res.Grammar = ctx.ParserGrammar
	res.Table = ctx.ParserTable
	res.Modes = ctx.LexerModes
	return res
}

// VerifGenerateLexer runs ParseLox, PreParseGo, EmitBase and EmitLexer only
// (base.gen.go and lexer.gen.go are written; the Go package is not analysed).
func VerifGenerateLexer(cfg *Config) *VerifResult {
	ctx := &context{
		Fset:   cfg.Fset,
		Errs:   cfg.Errs,
		Dir:    cfg.Dir,
		Report: cfg.Report,
	}
	res := &VerifResult{}
	stages := []struct {
		name string
		f    func() bool
	}{
		{"ParseLox", ctx.ParseLox},
		{"PreParseGo", ctx.PreParseGo},
		{"EmitBase", ctx.EmitBase},
		{"EmitLexer", ctx.EmitLexer},
	}
	res.OK = true
	for _, st := range stages {
		if !st.f() {
			res.OK = false
			res.Stage = st.name
			break
		}
	}
	res.Grammar = ctx.ParserGrammar
	res.Table = ctx.ParserTable
	res.Modes = ctx.LexerModes
	return res
}

// VerifTableArray feeds rows (row i is the row of state i) to the repository's
// row-sharing table and returns the encoded array.
func VerifTableArray(rows [][]int32) []int32 {
	t := newTable[int32]()
	for i, r := range rows {
		t.AddRow(i, r)
	}
	return t.Array()
}

func (c *context) verifParseGo(pkgPath string, imp gotypes.Importer) bool {
	placeholder := renderParserTemplate(&parserTemplateInputs{
		Placeholder: true,
		Package:     c.GoPackageName,
	})

	entries, err := os.ReadDir(c.Dir)
	if err != nil {
		c.Errs.GeneralError(err)
		return false
	}
	var names []string
	for _, e := range entries {
		n := e.Name()
		if e.IsDir() || filepath.Ext(n) != ".go" || strings.HasSuffix(n, "_test.go") {
			continue
		}
		if n == parserGenGo {
			continue
		}
		names = append(names, n)
	}
	sort.Strings(names)

	// The files are handed to the type checker in name order (placeholder
	// last), as packages.Load does. The order in which they are *parsed*, and
	// so registered in the FileSet (which fixes how their token.Pos values
	// compare across files), is the explorer's choice: packages.Load parses in
	// parallel goroutines and leaves that order to the scheduler.
	n := len(names) + 1
	order := make([]int, n)
	for i := range order {
		order[i] = i
	}
	if VerifParseOrder != nil {
		if o := VerifParseOrder(n); len(o) == n {
			order = o
		}
	}
	files := make([]*ast.File, n)
	for _, i := range order {
		var f *ast.File
		var err error
		if i < len(names) {
			f, err = goparser.ParseFile(c.Fset, filepath.Join(c.Dir, names[i]), nil, goparser.SkipObjectResolution)
		} else {
			f, err = goparser.ParseFile(c.Fset, filepath.Join(c.Dir, parserGenGo), placeholder, goparser.SkipObjectResolution)
		}
		if err != nil {
			c.Errs.GeneralError(err)
			return false
		}
		files[i] = f
	}

	c.GoPackagePath = pkgPath

	if imp == nil {
		// generated files may import standard packages (a template is free to)
		imp = verifDefaultImporter()
	}
	hadErr := false
	tcfg := &gotypes.Config{
		Importer: imp,
		Error: func(err error) {
			hadErr = true
			if te, ok := err.(gotypes.Error); ok {
				c.Errs.Errorf(te.Pos, "%v", te.Msg)
			} else {
				c.Errs.GeneralError(err)
			}
		},
	}
	pkg, _ := tcfg.Check(pkgPath, c.Fset, files, nil)
	if hadErr || pkg == nil {
		return false
	}

	scope := pkg.Scope()
	tokenObj := scope.Lookup("Token")
	if tokenObj == nil {
		c.Errs.GeneralErrorf("Token type is undefined")
		return false
	}
	c.TokenType = tokenObj.Type()

	errorObj := scope.Lookup("Error")
	if errorObj == nil {
		panic("Error type is undefined")
	}
	c.ErrorType = errorObj.Type()

	c.lookupParserType(scope)

	return !c.Errs.HasError()
}

var _ = gotoken.NoPos
