module github.com/dcaiafa/lox/verif

go 1.23.0

require (
	github.com/dcaiafa/lox v0.0.0
	github.com/dcaiafa/loxlex v0.5.0
	golang.org/x/tools v0.33.0
)

require (
	github.com/CloudyKit/fastprinter v0.0.0-20200109182630-33d98a066a53 // indirect
	github.com/CloudyKit/jet/v6 v6.3.1 // indirect
	golang.org/x/mod v0.24.0 // indirect
	golang.org/x/sync v0.14.0 // indirect
)

replace github.com/dcaiafa/lox => /repo
