#!/bin/bash
# Pre-builds the framework offline (populates the Go build cache).
set -e
cd /verif
exec ./run.sh setup
