#!/bin/bash
# Pre-builds the framework offline (populates the Go build cache).
set -e
cd "$(dirname "$0")"
exec ./run.sh setup
